#!/usr/bin/env python3
"""Re-evaluate every kept seeded change against the current checks: tools/seed_refresh.py [-j N] [PID-mK ...]

For each /verif/seeded/<PID>-m<k>/ runs tools/seed_eval.py on the kept copy, with the tier and the related checks
(`--also`) recorded in its meta.json by the previous evaluation, N at a time; then rewrites seeded/SUMMARY.md."""
import glob
import json
import os
import subprocess
import sys
from concurrent.futures import ThreadPoolExecutor

ROOT = os.path.dirname(os.path.dirname(os.path.abspath(__file__)))


def one(d):
    base = os.path.basename(d)
    pid, name = base.split('-', 1)
    also, tier = [], 'quick'
    mp = os.path.join(d, 'meta.json')
    if os.path.exists(mp):
        m = json.load(open(mp))
        also = [p for p in list(m.get('checks', {})) if p != pid]
        if any('--tier thorough' in r for r in m.get('ran', [])):
            tier = 'thorough'
    cmd = [sys.executable, os.path.join(ROOT, 'tools', 'seed_eval.py'), pid, d, name, '--tier', tier]
    if also:
        cmd += ['--also', ','.join(also)]
    r = subprocess.run(cmd, capture_output=True, text=True)
    try:
        m = json.load(open(mp))
        return base, m.get('confirmed'), m.get('detected_by'), r.returncode
    except Exception as e:
        return base, None, repr(e), r.returncode


def main():
    args = sys.argv[1:]
    j = 3
    if '-j' in args:
        i = args.index('-j')
        j = int(args[i + 1])
        del args[i:i + 2]
    dirs = sorted(glob.glob(os.path.join(ROOT, 'seeded', 'C*-m*')))
    if args:
        dirs = [d for d in dirs if os.path.basename(d) in args]
    with ThreadPoolExecutor(j) as ex:
        for res in ex.map(one, dirs):
            print(*res, flush=True)
    subprocess.run([sys.executable, os.path.join(ROOT, 'tools', 'seed_summary.py')], stdout=subprocess.DEVNULL)


if __name__ == '__main__':
    main()
