#!/usr/bin/env python3
"""Regenerates /verif/MANIFEST.json from the table below (kept in one place so that the
manifest is always valid and in step with the harness modules that exist)."""
import json
import os

ROOT = os.path.dirname(os.path.dirname(os.path.abspath(__file__)))

XH = 'bounded symbolic execution of the real code (CrossHair path exploration, z3 deciding every branch and the ' \
     'final comparison), counterexamples replayed concretely'
NOTE_XH = 'Trusted: CrossHair 0.0.110 + z3 5.1.0 (path feasibility), CPython 3.12; the stubs listed in the evidence ' \
          '(engine.io fakes written from python-engineio 4.14.0, opaque JSON text, null logger); claim holds only ' \
          'within the bounds stated in the evidence.'

NOTE_BSX = 'Trusted: z3 5.1.0 (QF_LIA), CPython 3.12; the bsx proxies (validated on every run by pushing the spec ' \
           'examples and the repository\'s own test frames through real str and BStr and comparing); JSON text is an ' \
           'arbitrary symbolic string constrained only in its first character; bounds as stated in the evidence.'

CLAIMS = {
    'C01': dict(
        text='The real bytecode of Packet.encode/decode runs on bounded symbolic strings; every path is closed by a z3 '
             'validity query. Round trip and exact equality with a specification-derived encoder for every packet type x '
             'namespace x id x payload text within the frame length bound, and differential decoding of completely '
             'arbitrary frames against a specification-derived decoder; payload trees with bytes leaves (placeholder '
             'numbering, attachment order, add_attachment completion, bytes only on EVENT/ACK) by solver-enumerated '
             'shapes. Exhaustive within the stated lengths/depths; beyond them nothing is claimed.',
        ref='5 C01', engine='xh+bsx', note=NOTE_BSX,
        technique='symbolic execution of the real codec bytecode on bounded symbolic strings (z3 validity queries) + '
                  'CrossHair shape enumeration for payload trees'),
    'C13': dict(
        text='Exhaustive (within the palette) symbolic execution of the real _trigger_event/_get_event_handler/'
             '_get_namespace_handler/trigger_event of all four classes against a six-step reference resolution: all 2^6 '
             'target combinations x unrelated-handler bit x reserved/ordinary events x sync/coroutine targets, '
             'arguments symbolic. Right level: the configuration space is finite and small, the solver covers it '
             'completely and decides argument equality for all values.',
        ref='5 C13', technique='symbolic execution (CrossHair+z3) of the real dispatch code vs reference resolution'),
    'C06': dict(
        text='Bounded symbolic execution of the real emit(callback=)/_handle_eio_message/_handle_ack/trigger_callback/'
             'call() of Server+Manager and AsyncServer+AsyncManager over all histories of 3 (thorough 4) operations on '
             '2 transports x 2 namespaces with symbolic ACK ids, against a reference table of outstanding callbacks; '
             'call() under every order of ACK / timeout / disconnect / another emit with a callback to the same client (wait hook; all '
             'miniloop schedules); ids that were answered are never issued again; a callback that itself uses the server (chained '
             'emit with callback, disconnect) returns (10 s watchdog). Exhaustive within those bounds; longer histories are outside the claim.',
        ref='5 C06', technique='symbolic execution (CrossHair+z3) of real server/manager code over bounded histories'),
    'C09': dict(
        text='Bounded symbolic execution of the real Client/AsyncClient event dispatch, ACK construction, '
             '_generate_ack_id, _handle_ack and call(): every single incoming event shape in the stated palette with '
             'symbolic ids/arguments/returns, and all histories of 3 (thorough 5) emit/ACK operations on 2 namespaces '
             'against a reference table. Exhaustive within those bounds.',
        ref='5 C09', technique='symbolic execution (CrossHair+z3) of real client code over bounded histories'),
    'C11': dict(
        text='Bounded symbolic execution of real Server/AsyncServer + Manager over every client life of 3 (thorough 4) '
             'operations (connects, refused connect, rooms, events, partial binary packets, unanswered callbacks, '
             'malformed frames, client/server disconnects) with a symbolic fault position (which handler invocation '
             'raises), ended by transport loss; afterwards all server containers are inspected for the transport and '
             'its session ids and the state after the last client must equal the fresh state. The memory clause is '
             'claimed as state equality, not as a heap measurement.',
        ref='5 C11', technique='symbolic execution (CrossHair+z3) over bounded histories with a symbolic fault index'),
    'C16': dict(
        text='Bounded symbolic execution of the real get_session/save_session/session() of Server and AsyncServer over '
             'all histories of 3 (thorough 4) operations on 3 client slots with symbolic session contents, every live '
             'session read back after every step against a reference map. One genuine defect is listed as a known '
             'finding (stale session after a namespace-level reconnect on a live transport).',
        ref='5 C16', technique='symbolic execution (CrossHair+z3) over bounded histories vs reference session map'),
    'C20': dict(
        text='Systematic enumeration, driven by the solver, of all schedules of two (thorough: three) real threads '
             'terminating one session id on the real threaded Server, pre-empting before every manager call and in the '
             'handler (thorough: also before every engine.io call), and - for five pairs - line by line inside the manager\'s look-ups '
             '(sys.settrace in the worker threads) with at most two pre-emptions per schedule, exhaustively. The schedule vector is the only symbolic input, so '
             'solver leverage is low; it is the same engine and verdict discipline. The check-then-mark race is a '
             'known finding identified by its schedule family.',
        ref='5 C20', technique='solver-driven schedule enumeration (CrossHair+z3 over a baton thread scheduler) on the real Server'),
    'C12': dict(
        text='Compositional: (a) the real Packet.decode on arbitrary bounded symbolic frames and on 100-digit / 10-digit '
             'runs with a symbolic boundary - every decoded field lies in a domain D and int() is never applied to more '
             'than 100 characters (z3 validity queries); (b) the real _handle_eio_message of Server/AsyncServer fed '
             'packets with symbolic fields from D, stray binary frames and malformed text by one offender while two '
             'bystanders hold rooms, sessions and callbacks: no handler runs for a bystander, nothing about them changes, '
             'nothing is sent to them, and sentinel traffic afterwards is served exactly as before.',
        ref='5 C12', engine='xh+bsx',
        technique='symbolic execution: bsx validity queries on the real decoder + CrossHair exploration of the real '
                  'dispatch code with symbolic packet fields'),
    'C05': dict(
        text='Bounded symbolic execution of the real event path of Server and AsyncServer (dispatch, binary reassembly, '
             'handler invocation, ACK construction) for every responsible party, id kind (None, 0, symbolic, huge), '
             'argument shape with bytes, return form (incl. falsy values the solver picks) and connected/unconnected '
             'namespace, for one event and for two consecutive events; exhaustive within the palette.',
        ref='5 C05', technique='symbolic execution (CrossHair+z3) of the real event dispatch vs reference expectations'),
    'C03': dict(
        text='Inductive step over room state, decided by symbolic execution of the real Server/AsyncServer + Manager/'
             'AsyncManager: every membership matrix over 3 clients x 3 rooms (string, integer, session-id-named) is a '
             'pre-state, one arbitrary operation is applied, and recipients of eight probe emits (from the per-transport '
             'outboxes, exactly-once), rooms() and container hygiene are compared with a set-based model. Covers '
             'histories of any length over that universe as far as observations depend on the state only.',
        ref='5 C03', technique='symbolic execution (CrossHair+z3): one inductive step from every bounded room state'),
    'C04': dict(
        text='Bounded symbolic execution of the real connect/disconnect paths of Server and AsyncServer against a '
             'reference lifecycle: all histories of 2 (thorough 3) operations over 2 transports x 3 namespaces with every '
             'connect-handler behaviour (accept, False, ConnectionRefusedError with 0..3 arguments, symbolic payloads), '
             'always_connect, implied/listed/"*" namespaces, function and class-based handlers; for the asyncio server '
             'every schedule of concurrent terminating causes with suspension in every send and in the handler.',
        ref='5 C04', technique='symbolic execution (CrossHair+z3) over bounded histories; solver-enumerated asyncio schedules'),
    'C17': dict(
        text='Symbolic execution of every helper of the four namespace classes against a recorder carrying the '
             'signatures read from the real Server/Client classes of the current tree: every subset of optional '
             'arguments, every positional prefix, values incl. solver-chosen falsy ones and explicit falsy namespaces; '
             'the recorded binding must equal what the caller gave, the registration namespace being the default, and '
             'the result is passed back unchanged. Exhaustive over that finite space.',
        ref='5 C17', technique='symbolic execution (CrossHair+z3) of the real delegating methods vs signature-derived expectations'),
    'C10': dict(
        text='The real _handle_reconnect of Client and AsyncClient is executed with reconnection_delay, '
             'reconnection_delay_max, randomization_factor and every random() draw as symbolic reals and the failure '
             'pattern, attempt limit and abort position as tape choices; z3 (real arithmetic) decides the back-off bound, '
             'the attempt count, wait/attempt pairing, attempt parameters and final notification on every path (up to 5, '
             'thorough 8, waits). A second check runs the real client on the fake engine.io through four causes of '
             'loss, transport and namespace failures of attempts, success (handlers re-run, fresh sids), a second loss, '
             'shutdown during back-off, a connection made by hand after an effort that gave up and lost again, and a loss in the '
             'middle of a binary event.',
        ref='5 C10', note=NOTE_XH + ' Floats are modelled as reals (1e-9 slack).',
        technique='symbolic execution (CrossHair+z3, real arithmetic) of the real reconnect loop with time and randomness as symbolic inputs'),
    'C08': dict(
        text='Bounded symbolic execution of the real Client/AsyncClient connect(), _handle_connect/_handle_disconnect/'
             '_handle_error, emit guard and _handle_eio_disconnect with the harness as server: every subset/order of two '
             'namespaces, auth forms, wait on/off, every accept/refuse/silence pattern, a second attempt after a failed '
             'connect, a connected life, every way of ending it, and a fresh connection probed with a late ACK and a '
             'stray attachment; the server may also accept a namespace and end it at once, and the transport may be lost '
             'behind the answers while connect() still waits; after each step namespaces/get_sid/connected are compared with the server view and '
             'handler invocation counts with the model. Exhaustive within those bounds.',
        ref='5 C08', technique='symbolic execution (CrossHair+z3) of the real client over bounded histories vs server-view model'),
    'C02': dict(
        text='A real Client/Server pair (and AsyncClient/AsyncServer) joined back to back is executed symbolically: '
             'event name, payload form (None, scalar, tree with bytes, tuples), return form and namespace are tape '
             'draws with symbolic leaves; handler arguments, callback arguments, call() results and handling order are '
             'compared type-strictly with the documented packing rules, for both directions, both serializers and both '
             'implementations, incl. two consecutive messages with suspending handlers on asyncio. msgpack values are '
             'realised at the C boundary (enumerated small domains).',
        ref='5 C02', technique='symbolic execution (CrossHair+z3) of real client+server joined end to end'),
    'C15': dict(
        text='The real listener loop of PubSubManager and AsyncPubSubManager consumes solver-chosen channel contents '
             '(16 kinds of valid/invalid/foreign/own/garbage messages x 4 encodings x variants) with faults (raising or '
             'cancelled application callback, raising server operation, raising and restarted listen iterator); a '
             'sentinel after every item must be delivered exactly once, echoes must not be re-applied, foreign '
             'acknowledgements must not complete local callbacks. The plan is the only symbolic input, so this is '
             'solver-driven enumeration of the bounded plan space on the real code. The real RedisManager / AsyncRedisManager '
             'run on a fake of the redis client library (broker scripts with drops, failing reconnections, foreign '
             'messages): the loop must end listening on a subscribed connection, waits follow 1,2,4..60 and restart at 1, '
             'publish retries once and gives up quietly.',
        ref='5 C15', technique='solver-driven enumeration (CrossHair+z3) of channel contents and fault positions on the real listener'),
    'C18': dict(
        text='Symbolic execution of the real InstrumentedServer/InstrumentedAsyncServer: (gate) admin CONNECT through the '
             'real _handle_connect/admin_connect for a payload palette with symbolic strings against dict / list / sync / '
             'coroutine predicate (any falsy "no", any truthy "yes") / False credentials, refused attempts answered with '
             'CONNECT_ERROR and left without membership; (read-only) the four mutating admin requests with symbolic '
             'arguments have no effect in read-only and production modes; (transparency) the same application scenario '
             'on a plain and an instrumented server gives identical packets, handler calls, callback firings and rooms to '
             'application clients, admin connected or not.',
        ref='5 C18', technique='symbolic execution (CrossHair+z3) of the real admin code; differential instrumented vs plain server'),
    'C07': dict(
        text='Differential check driven by the solver: two (thorough: three) real servers with real PubSubManager / '
             'AsyncPubSubManager subclasses over one FIFO channel of pickled messages (each host consuming through its '
             'real listener loop) against one real server with the in-memory manager holding all clients; every '
             'placement of 3 clients, every pair of operations from the stated alphabet (emits via either host or a '
             'write-only process, with callbacks, room operations incl. session-id-named rooms, disconnects, client ACKs) '
             'with immediate consumption must give identical per-client deliveries and callback invocations; delayed '
             'consumption is checked for at-most-once. The plan is the symbolic input (solver-enumerated).',
        ref='5 C07', technique='solver-driven enumeration (CrossHair+z3) of cluster histories; differential vs a real single server'),
    'C14': dict(
        text='Differential check of every threaded class against its asyncio twin on solver-enumerated scripts: all '
             'triples of 26 server operations (valid and malformed client packets, API calls, raising callbacks, '
             'duplicate ACKs, transport loss, class-based namespaces), all triples of 22 client operations, all pairs of 9 '
             'pub/sub message kinds x 4 encodings x 4 variants through both listeners, all triples of 8 simple-client '
             'operations; packets per peer in order, handler/callback invocations, API results or exception types, '
             'contained exceptions, published messages and final state must be identical; the API of a write-only manager is compared pairwise as well.',
        ref='5 C14', technique='solver-driven script enumeration (CrossHair+z3); differential threaded vs asyncio on the real classes'),
    'C19': dict(
        text='Systematic enumeration, driven by the solver, of all schedules (at the granularity of event and buffer '
             'operations, plus the instant a wait returns) of a producer thread driving the handlers that the real '
             'SimpleClient.connect() registers against a consumer thread calling the real receive()/emit(), over seven '
             'scenarios (arrivals, bursts, loss and reconnection, final disconnect); and all await-point interleavings of '
             'the real AsyncSimpleClient. Safety claims, plus: a receive() without timeout ends once the connection has ended for good. Order, exactly-once, no event lost, TimeoutError only while '
             'nothing completed is buffered, DisconnectedError only after the end, emit waits out a reconnection. The '
             'schedule vector is the only symbolic input (low solver leverage, same engine and verdict discipline).',
        ref='5 C19', technique='solver-driven schedule enumeration (CrossHair+z3 over baton threads / miniloop) on the real SimpleClient'),
}

PENDING = 'check not built yet in this tree (work in progress); no claim is made'


def main():
    ids = [json.loads(l)['id'] for l in open(os.path.join(ROOT, 'properties.jsonl'))]
    checks, na = [], []
    for pid in ids:
        c = CLAIMS.get(pid)
        if c is None or not os.path.exists(os.path.join(ROOT, 'harness', pid.lower() + '.py')):
            na.append({'property_id': pid, 'reason': (c or {}).get('na', PENDING)})
            continue
        checks.append({
            'property_id': pid,
            'quick_cmd': './vchk check %s --tier quick' % pid,
            'thorough_cmd': './vchk check %s --tier thorough' % pid,
            'evidence_file': 'evidence/%s.json' % pid,
            'replay_cmd_template': './vchk replay {path}',
            'engine': c.get('engine', 'xh'),
            'level_claimed': {'category': 'other', 'text': c['text'], 'design_ref': 'DESIGN.md §' + c['ref']},
            'level_note': c.get('note', NOTE_XH),
            'technique': c.get('technique', XH),
        })
    m = {
        'version': 1,
        'setup_cmd': './setup.sh',
        'hooks': {
            'guard': 'PYTHON_SOCKETIO_VERIF',
            'enable': 'no source hooks are needed: the checks import the unmodified modules from /repo/src and inject '
                      'stubs through the hooks the code provides (_engineio_server_class, serializer=, module globals '
                      'rebound from the harness); vchk exports PYTHON_SOCKETIO_VERIF=1 for form only',
            'baseline_off_cmd': 'cd /repo && /venv/bin/python -m pytest -ra -q -p no:cacheprovider --timeout=900 '
                                '--continue-on-collection-errors',
            'source_commits': [],
            'add_only': True,
        },
        'engines': [
            {'name': 'xh', 'path': 'vf/xh.py', 'serves_properties': [c['property_id'] for c in checks
                                                                      if c['engine'] in ('xh', 'xh+bsx')],
             'kind_free_text': 'CrossHair 0.0.110 path exploration loop driven as a library over harnesses whose '
                               'undetermined inputs, histories, schedules and fault positions come from a symbolic tape; '
                               'z3 decides branches; concrete replay of every counterexample'},
            {'name': 'bsx', 'path': 'vf/bsx.py', 'serves_properties': [c['property_id'] for c in checks
                                                                        if 'bsx' in c['engine']],
             'kind_free_text': 'bounded symbolic strings (vectors of z3 Int code points) executing the real bytecode of '
                               'socketio.packet.Packet.encode/decode by shadowing int/str/len in the module globals; '
                               'validity queries to z3, cross-checked with a second solver'},
        ],
        'checks': checks,
        'not_applicable': na,
        'notes': 'All checks are solver-based checks of the real code; see DESIGN.md. Exit 2 = harness/engine error '
                 '(never reported as pass).',
    }
    with open(os.path.join(ROOT, 'MANIFEST.json'), 'w') as f:
        json.dump(m, f, indent=1)
    print('MANIFEST.json: %d checks, %d not_applicable' % (len(checks), len(na)))


if __name__ == '__main__':
    main()
