#!/usr/bin/env python3
"""Evaluate one seeded change: tools/seed_eval.py <PID> <mutation dir> <name> [--tier quick] [--also PID2,...]

1. confirms, in a scratch worktree outside /repo and /verif, that the change applies, the existing (non-admin)
   tests still pass, the demonstration fails with it and passes without it;
2. applies it to /repo, runs the registered check(s), reverts /repo;
3. stores patch, demonstration and meta.json under /verif/seeded/<PID>-<name>/.
The evidence files are restored afterwards (evidence must come from the unchanged tree)."""
import json
import os
import shutil
import subprocess
import sys
import time

ROOT = os.path.dirname(os.path.dirname(os.path.abspath(__file__)))
TESTS = ['-m', 'pytest', '-q', '-p', 'no:cacheprovider', 'tests', '--ignore=tests/common/test_admin.py',
         '--ignore=tests/async/test_admin.py', '--ignore=tests/performance', '-x', '-q', '-W', 'ignore']


def sh(cmd, **kw):
    return subprocess.run(cmd, capture_output=True, text=True, **kw)


def main():
    pid, mdir, name = sys.argv[1:4]
    mdir = os.path.abspath(mdir)
    tier = 'quick'
    also = []
    args = sys.argv[4:]
    while args:
        a = args.pop(0)
        if a == '--tier':
            tier = args.pop(0)
        elif a == '--also':
            also = args.pop(0).split(',')
    patch = os.path.join(mdir, 'patch.diff')
    demo = os.path.join(mdir, 'demo.py')
    meta = {'property': pid, 'name': name, 'source': 'independent sub-agent given only the property text', 'ran': []}
    # ---- 1. confirm in a scratch worktree ---------------------------------------------------------------
    wt = '/tmp/seedcheck-%s-%s' % (pid, name)
    sh(['git', '-C', '/repo', 'worktree', 'remove', '--force', wt])
    r = sh(['git', '-C', '/repo', 'worktree', 'add', '--detach', wt, 'HEAD'])
    assert r.returncode == 0, r.stderr
    try:
        env = dict(os.environ, PYTHONPATH=wt + '/src')
        d0 = sh(['/venv/bin/python', demo], cwd=wt, env=env, timeout=600)
        meta['demo_on_unchanged_tree_rc'] = d0.returncode
        a = sh(['git', '-C', wt, 'apply', os.path.abspath(patch)])
        assert a.returncode == 0, 'patch does not apply: ' + a.stderr
        t = sh(['/venv/bin/python'] + TESTS, cwd=wt, env=env, timeout=1200)
        meta['existing_tests_with_change'] = t.stdout.strip().splitlines()[-1] if t.stdout.strip() else t.stderr[-200:]
        meta['existing_tests_rc'] = t.returncode
        d1 = sh(['/venv/bin/python', demo], cwd=wt, env=env, timeout=600)
        meta['demo_with_change_rc'] = d1.returncode
        meta['demo_with_change_output'] = (d1.stdout + d1.stderr)[-800:]
        meta['ran'] += ['git apply patch.diff (scratch worktree)', '/venv/bin/python ' + ' '.join(TESTS),
                        'PYTHONPATH=<wt>/src /venv/bin/python demo.py (with and without the change)']
    finally:
        sh(['git', '-C', '/repo', 'worktree', 'remove', '--force', wt])
        shutil.rmtree(wt, ignore_errors=True)
    meta['confirmed'] = (meta['demo_on_unchanged_tree_rc'] == 0 and meta['demo_with_change_rc'] != 0
                         and meta['existing_tests_rc'] == 0)
    # ---- 2. run the checks against it ----------------------------------------------------------------------
    # default: in a second scratch worktree whose src/ shadows /repo/src (VERIF_SRC), so that several seeded
    # changes can be evaluated in parallel and /repo stays untouched; --in-repo applies it to /repo itself
    results = {}
    if '--in-repo' in sys.argv:
        st = sh(['git', '-C', '/repo', 'status', '--porcelain'])
        assert st.stdout.strip() == '', '/repo is not clean'
        a = sh(['git', '-C', '/repo', 'apply', os.path.abspath(patch)])
        assert a.returncode == 0, a.stderr
        env2 = dict(os.environ, VERIF_EVIDENCE_DIR='/tmp/seed-evidence-%s-%s' % (pid, name))
        where = '/repo'
    else:
        wt2 = '/tmp/seedrun-%s-%s' % (pid, name)
        sh(['git', '-C', '/repo', 'worktree', 'remove', '--force', wt2])
        r = sh(['git', '-C', '/repo', 'worktree', 'add', '--detach', wt2, 'HEAD'])
        assert r.returncode == 0, r.stderr
        a = sh(['git', '-C', wt2, 'apply', os.path.abspath(patch)])
        assert a.returncode == 0, a.stderr
        env2 = dict(os.environ, VERIF_SRC=wt2 + '/src', VERIF_EVIDENCE_DIR='/tmp/seed-evidence-%s-%s' % (pid, name),
                    VERIF_STOP_AT_FIRST='1')
        where = 'scratch worktree via VERIF_SRC'
    try:
        for p in [pid] + also:
            t0 = time.time()
            c = sh(['./vchk', 'check', p, '--tier', tier], cwd=ROOT, timeout=7200, env=env2)
            lines = [l for l in c.stdout.splitlines() if l.startswith(('VIOLATION', '  violated', 'HARNESS', p + ' tier'))]
            results[p] = {'rc': c.returncode, 'wall_s': round(time.time() - t0, 1), 'lines': lines[:8],
                          'detected': c.returncode == 1 and any(l.startswith('VIOLATION') for l in lines)}
    finally:
        if '--in-repo' in sys.argv:
            sh(['git', '-C', '/repo', 'checkout', '--', '.'])
        else:
            sh(['git', '-C', '/repo', 'worktree', 'remove', '--force', wt2])
            shutil.rmtree(wt2, ignore_errors=True)
        shutil.rmtree(env2['VERIF_EVIDENCE_DIR'], ignore_errors=True)
    meta['checks_run_against'] = where
    meta['checks'] = results
    meta['detected_by'] = [p for p, r in results.items() if r['detected']]
    meta['ran'].append('git -C /repo apply patch.diff ; ./vchk check <id> --tier %s ; git -C /repo checkout -- .' % tier)
    out = os.path.join(ROOT, 'seeded', '%s-%s' % (pid, name))
    os.makedirs(out, exist_ok=True)
    same = os.path.realpath(mdir) == os.path.realpath(out)      # re-evaluating the kept copy
    if not same:
        shutil.copy(patch, os.path.join(out, 'patch.diff'))
        shutil.copy(demo, os.path.join(out, 'demo.py'))
    rd = os.path.join(mdir, 'README.md')
    if os.path.exists(rd):
        if not same:
            shutil.copy(rd, os.path.join(out, 'README.md'))
        meta['needs_to_manifest'] = 'see README.md'
    json.dump(meta, open(os.path.join(out, 'meta.json'), 'w'), indent=1)
    print(json.dumps({k: meta[k] for k in ('property', 'name', 'confirmed', 'detected_by', 'checks')}, indent=1))


if __name__ == '__main__':
    main()
