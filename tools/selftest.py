#!/usr/bin/env python3
"""Self-tests of the machinery (not a registered check): run with /verif/.venv/bin/python tools/selftest.py

1. miniloop in FIFO mode orders a scenario exactly like asyncio does (create_task, Event, sleep, wait_for, gather).
2. the bsx proxies agree with str on the sample frames (the same validation C01 runs on every check).
3. FakeEio honours the engine.io contract points the harnesses rely on, checked against the real engineio.Server.
"""
import asyncio
import os
import sys

sys.path.insert(0, os.path.dirname(os.path.dirname(os.path.abspath(__file__))))
from vf import miniloop, stubs  # noqa: E402


def scenario(A, out):
    async def worker(name, ev, n):
        for i in range(n):
            out.append((name, i))
            await A.sleep(0)
        ev.set()
        return name

    async def waiter(ev):
        try:
            await A.wait_for(ev.wait(), 5)
            out.append(('woken',))
        except A.TimeoutError:
            out.append(('timeout',))

    async def main():
        e1, e2 = A.Event(), A.Event()
        t1 = A.create_task(worker('a', e1, 3))
        t2 = A.create_task(worker('b', e2, 2))
        t3 = A.create_task(waiter(e1))
        out.append(('main',))
        r = await A.gather(t1, t2)
        await t3
        out.append(tuple(r))
    return main


def test_miniloop():
    real, mini = [], []
    asyncio.run(scenario(asyncio, real)())
    loop = miniloop.new_loop()
    loop.run(scenario(miniloop, mini)())
    assert real == mini, 'miniloop order differs from asyncio:\n%r\n%r' % (real, mini)
    return len(real)


def test_bsx():
    from harness import c01
    n, bad = c01.validate_translator()
    assert not bad, bad[:2]
    return n


def test_fake_eio():
    import engineio
    real = engineio.Server(async_mode='threading')
    fake = stubs.FakeEio()
    # unknown session: get_session raises KeyError, send is dropped silently
    for s in (real, fake):
        try:
            s.get_session('nobody')
            raise AssertionError('get_session of an unknown session did not raise')
        except KeyError:
            pass
        s.send('nobody', 'x')
    # exceptions escaping the message / disconnect callbacks are contained, connect -> False
    for s, trig in ((real, real._trigger_event), (fake, fake._trigger)):
        s.on('message', lambda sid, data: 1 / 0)
        s.on('connect', lambda sid, env: 1 / 0)
        assert trig('message', 'sid', 'data') is None
        assert trig('connect', 'sid', {}) is False
    # ids are pairwise distinct
    assert len({real.generate_id() for _ in range(50)}) == 50 and len({fake.generate_id() for _ in range(50)}) == 50
    return 3


if __name__ == '__main__':
    import logging
    logging.disable(logging.CRITICAL)
    print('miniloop vs asyncio: %d trace entries identical' % test_miniloop())
    print('bsx proxies vs str: %d frames identical' % test_bsx())
    print('FakeEio vs engineio.Server: %d contract points identical' % test_fake_eio())
    print('selftest ok')
