#!/usr/bin/env python3
"""Self-tests of the machinery (not a registered check): run with /verif/.venv/bin/python tools/selftest.py

1. miniloop in FIFO mode orders a scenario exactly like asyncio does (create_task, Event, sleep, wait_for, gather).
2. the bsx proxies agree with str on the sample frames (the same validation C01 runs on every check).
3. FakeEio honours the engine.io contract points the harnesses rely on, checked against the real engineio.Server.
"""
import asyncio
import os
import sys

sys.path.insert(0, os.path.dirname(os.path.dirname(os.path.abspath(__file__))))
from vf import miniloop, stubs  # noqa: E402


def scenario(A, out):
    async def worker(name, ev, n):
        for i in range(n):
            out.append((name, i))
            await A.sleep(0)
        ev.set()
        return name

    async def waiter(ev):
        try:
            await A.wait_for(ev.wait(), 5)
            out.append(('woken',))
        except A.TimeoutError:
            out.append(('timeout',))

    async def main():
        e1, e2 = A.Event(), A.Event()
        t1 = A.create_task(worker('a', e1, 3))
        t2 = A.create_task(worker('b', e2, 2))
        t3 = A.create_task(waiter(e1))
        out.append(('main',))
        r = await A.gather(t1, t2)
        await t3
        out.append(tuple(r))
    return main


def test_miniloop():
    real, mini = [], []
    asyncio.run(scenario(asyncio, real)())
    loop = miniloop.new_loop()
    loop.run(scenario(miniloop, mini)())
    assert real == mini, 'miniloop order differs from asyncio:\n%r\n%r' % (real, mini)
    return len(real)


def test_bsx():
    from harness import c01
    n, bad = c01.validate_translator()
    assert not bad, bad[:2]
    return n


def test_fake_eio():
    import engineio
    real = engineio.Server(async_mode='threading')
    fake = stubs.FakeEio()
    # unknown session: get_session raises KeyError, send is dropped silently
    for s in (real, fake):
        try:
            s.get_session('nobody')
            raise AssertionError('get_session of an unknown session did not raise')
        except KeyError:
            pass
        s.send('nobody', 'x')
    # exceptions escaping the message / disconnect callbacks are contained, connect -> False
    for s, trig in ((real, real._trigger_event), (fake, fake._trigger)):
        s.on('message', lambda sid, data: 1 / 0)
        s.on('connect', lambda sid, env: 1 / 0)
        assert trig('message', 'sid', 'data') is None
        assert trig('connect', 'sid', {}) is False
    # ids are pairwise distinct
    assert len({real.generate_id() for _ in range(50)}) == 50 and len({fake.generate_id() for _ in range(50)}) == 50
    # a MESSAGE packet behind a CLOSE packet in one polling payload is still handed to the application, after the
    # disconnect event (what FakeEio.recv_after_close models)
    import io
    from engineio import packet as epkt, payload as epay, socket as esock
    seen = []
    real2 = engineio.Server(async_mode='threading', async_handlers=False)
    real2.on('connect', lambda sid, env: None)
    real2.on('message', lambda sid, data: seen.append(('message', data)))
    real2.on('disconnect', lambda sid, *a: seen.append(('disconnect',)))
    sock = esock.Socket(real2, 'S')
    real2.sockets['S'] = sock
    body = epay.Payload(packets=[epkt.Packet(epkt.CLOSE), epkt.Packet(epkt.MESSAGE, data='40')]).encode().encode('utf-8')
    sock.handle_post_request({'CONTENT_LENGTH': str(len(body)), 'wsgi.input': io.BytesIO(body)})
    assert seen == [('disconnect',), ('message', '40')], seen
    seen2 = []
    fake2 = stubs.FakeEio()
    fake2.on('connect', lambda sid, env: None)
    fake2.on('message', lambda sid, data: seen2.append(('message', data)))
    fake2.on('disconnect', lambda sid, *a: seen2.append(('disconnect',)))
    fake2.open('S')
    fake2.lose('S')
    fake2.recv_after_close('S', '40')
    assert seen2 == seen, (seen2, seen)
    return 4


def test_asyncgen():
    """an async generator dropped before exhaustion is closed by a later task, on asyncio and on miniloop alike"""
    def run(A, runner):
        out = []

        async def gen():
            try:
                yield 1
                yield 2
            finally:
                out.append('closed')

        async def main():
            async for x in gen():
                out.append(x)
                break
            out.append('after the loop')
            await A.sleep(0)
            await A.sleep(0)
            out.append('end')
        runner(main())
        return out
    a = run(asyncio, asyncio.run)
    loop = miniloop.new_loop(None, 200)

    def mrun(coro):
        t = loop.create_task(coro)
        loop.run_until(lambda: t.done_)
        loop.drain()
    b = run(miniloop, mrun)
    assert a == b, (a, b)
    return len(a)


if __name__ == '__main__':
    import logging
    logging.disable(logging.CRITICAL)
    print('miniloop vs asyncio: %d trace entries identical' % test_miniloop())
    print('bsx proxies vs str: %d frames identical' % test_bsx())
    print('FakeEio vs engineio.Server: %d contract points identical' % test_fake_eio())
    print('async generator finalisation, asyncio vs miniloop: %d trace entries identical' % test_asyncgen())
    print('selftest ok')
