#!/usr/bin/env python3
"""writes seeded/SUMMARY.md from the meta.json files"""
import json
import glob
import os
ROOT = os.path.dirname(os.path.dirname(os.path.abspath(__file__)))
rows = []
for d in sorted(glob.glob(os.path.join(ROOT, 'seeded', '*'))):
    mp = os.path.join(d, 'meta.json')
    if not os.path.exists(mp):
        continue
    m = json.load(open(mp))
    checks = m.get('checks', {})
    rows.append((os.path.basename(d), m.get('confirmed'), ','.join(m.get('detected_by', [])) or '-',
                 '; '.join('%s rc=%s %ss' % (k, v['rc'], v['wall_s']) for k, v in checks.items()),
                 (checks.get(m['property'], {}).get('lines') or [''])[0][:110]))
with open(os.path.join(ROOT, 'seeded', 'SUMMARY.md'), 'w') as f:
    f.write('| seeded change | confirmed (tests pass, demo fails with / passes without) | detected by | runs | first violation line |\n|---|---|---|---|---|\n')
    for r in rows:
        f.write('| %s | %s | %s | %s | `%s` |\n' % r)
    det = sum(1 for r in rows if r[2] != '-')
    f.write('\n%d of %d detected by the listed checks.\n' % (det, len(rows)))
print(open(os.path.join(ROOT, 'seeded', 'SUMMARY.md')).read()[-300:])
