#!/usr/bin/env python3
"""Re-run one check against a kept seeded change and update its meta.json:
tools/seed_recheck.py <seed dir name, e.g. C04-m12> <check id> [<check id> ...]
(the confirmation part of tools/seed_eval.py - tests pass, demonstration fails with / passes without - is not repeated;
the patch is applied in a scratch worktree of /repo's HEAD whose src/ shadows /repo/src through VERIF_SRC)"""
import json
import os
import shutil
import subprocess
import sys
import time

ROOT = os.path.dirname(os.path.dirname(os.path.abspath(__file__)))


def sh(cmd, **kw):
    return subprocess.run(cmd, capture_output=True, text=True, **kw)


def main():
    seed = sys.argv[1]
    d = os.path.join(ROOT, 'seeded', seed)
    meta = json.load(open(os.path.join(d, 'meta.json')))
    wt = '/tmp/seedre-' + seed
    sh(['git', '-C', '/repo', 'worktree', 'remove', '--force', wt])
    r = sh(['git', '-C', '/repo', 'worktree', 'add', '--detach', wt, 'HEAD'])
    assert r.returncode == 0, r.stderr
    try:
        a = sh(['git', '-C', wt, 'apply', os.path.join(d, 'patch.diff')])
        assert a.returncode == 0, a.stderr
        env = dict(os.environ, VERIF_SRC=wt + '/src', VERIF_EVIDENCE_DIR='/tmp/seedre-ev-' + seed, VERIF_STOP_AT_FIRST='1')
        for p in sys.argv[2:]:
            t0 = time.time()
            c = sh(['./vchk', 'check', p, '--tier', 'quick'], cwd=ROOT, timeout=3600, env=env)
            lines = [l for l in c.stdout.splitlines() if l.startswith(('VIOLATION', '  violated', 'HARNESS', p + ' tier'))]
            meta.setdefault('checks', {})[p] = {
                'rc': c.returncode, 'wall_s': round(time.time() - t0, 1), 'lines': lines[:8],
                'detected': c.returncode == 1 and any(l.startswith('VIOLATION') for l in lines),
                'rerun': 'tools/seed_recheck.py after the check was strengthened; /repo ' +
                         sh(['git', '-C', '/repo', 'log', '--format=%h', '-1']).stdout.strip()}
    finally:
        sh(['git', '-C', '/repo', 'worktree', 'remove', '--force', wt])
        shutil.rmtree(wt, ignore_errors=True)
        shutil.rmtree('/tmp/seedre-ev-' + seed, ignore_errors=True)
    meta['detected_by'] = [p for p, r in meta['checks'].items() if r.get('detected')]
    json.dump(meta, open(os.path.join(d, 'meta.json'), 'w'), indent=1)
    print(seed, meta['detected_by'], {p: (r['rc'], r['wall_s']) for p, r in meta['checks'].items()})


if __name__ == '__main__':
    main()
