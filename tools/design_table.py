#!/usr/bin/env python3
"""prints the per-property table of DESIGN.md §5 from evidence/*.json and seeded/*/meta.json"""
import glob
import json
import os

ROOT = os.path.dirname(os.path.dirname(os.path.abspath(__file__)))
SHORT = {
    'C01': 'frame <= 10 / <= 8 code points; trees depth 2 width 2; attachment counts 0..12',
    'C02': '1 message (2 without ack) x 2 impl x 2 serializers x 2 directions x 3 ack modes',
    'C03': '2^7 pre-states x 56 ops (incl. a newcomer named like a room) x 9 probes',
    'C04': '2 ops, 16 configurations; 6 pairs of concurrent causes (+ bystander traffic, + a bystander\'s refused CONNECT with a late second cause)',
    'C05': '1 event (2 after a raising handler), 7 responsible parties',
    'C06': '3 ops + epilogue, symbolic ids never reissued, 1 raising callback; call() orders incl. a concurrent emit; callbacks that use the server',
    'C07': '3 clients, 2 hosts, 2 ops; k <= 3 first connections arriving together',
    'C08': 'connect patterns (incl. default namespaces) x life of 2',
    'C09': '1 event; 4 ops; message-per-task deliveries',
    'C10': '5 waits over the reals (parameters also through the constructor); 4 causes, efforts counted, connect again after giving up, loss inside a binary event',
    'C11': '3 ops + fault index (Exception / CancelledError / BaseException interrupt) + loss (also during a handler or a room emit with callback)',
    'C12': '1-2 hostile frames with bystander traffic (also during the offender\'s handlers); 100-digit runs',
    'C13': 'all 2^6 registries x events incl. "*" x namespaces incl. "*"; one late registration',
    'C14': 'triples of 26/22/8 ops; pairs of pub/sub messages',
    'C15': '1 item (2 after a fault); Redis: 2 broker events, <= 8 failing reconnections, 2 publishes',
    'C16': '3 ops incl. nested blocks, empty save, duplicate CONNECT',
    'C17': 'all subsets x positional prefixes, registered twice',
    'C18': '12 payloads x 5 configs; 2 app ops; non-default admin namespace',
    'C19': '10 scenarios x all schedules (incl. untimed receive at the end); plans of 4 ops on the real Client',
    'C20': 'all pairs of 3 causes + other-namespace, default and pub/sub manager; 5 pairs line by line inside the manager look-ups (<= 2 pre-emptions)',
}


def main():
    seeds = {}
    for mp in glob.glob(os.path.join(ROOT, 'seeded', 'C*-m*', 'meta.json')):
        m = json.load(open(mp))
        tot, det, own = seeds.get(m['property'], (0, 0, 0))
        d = m.get('detected_by') or []
        seeds[m['property']] = (tot + 1, det + (1 if d else 0), own + (1 if m['property'] in d else 0))
    print('| id | checks | quick bound (short) | quick wall | partitions exhausted | paths | seeds caught (by own check) |')
    print('|----|--------|---------------------|-----------|----------------------|-------|------------------------------|')
    for i in range(1, 21):
        pid = 'C%02d' % i
        ev = json.load(open(os.path.join(ROOT, 'evidence', pid + '.json')))
        cov = ev['coverage']
        tot, det, own = seeds.get(pid, (0, 0, 0))
        print('| %s | %s | %s | %d s | %d/%d | %d | %d/%d (%d) |' % (
            pid, ', '.join(cov['per_check']), SHORT[pid], round(ev['wall_s']), cov['partitions_exhausted'], cov['partitions'],
            cov['evaluations'], det, tot, own))


if __name__ == '__main__':
    main()
