"""Blocking waits of the threaded classes, outside C19/C20: Event.wait(timeout) runs the
environment hook re-entrantly (the harness decides, from the tape, what happens while the
caller is blocked: deliver a packet, lose the transport, nothing = the timeout expires)
and then returns its flag."""

HOOK = [None]     # callable(event, timeout) installed by the world


class HookEvent:
    def __init__(self):
        self.f = False

    def set(self):
        self.f = True

    def clear(self):
        self.f = False

    def is_set(self):
        return self.f

    def wait(self, timeout=None):
        if not self.f and HOOK[0] is not None:
            HOOK[0](self, timeout)
        if not self.f and timeout is None:
            raise RuntimeError('stuck: untimed wait on an event nobody will set')
        return self.f
