"""bsx: bounded symbolic strings executing the real bytecode of socketio.packet.

BStr = L z3 Int code points + z3 Int length. find / isdigit / slicing with symbolic bounds /
== / + / int() / str() are merged ITE expressions (no forking); bool() of a symbolic condition
asks z3 which sides are feasible and forks by re-execution with a decision prefix (DFS).
isdigit uses the exact table of the running interpreter (ranges of chr(c).isdigit()); int()
the exact table of unicodedata.decimal, so characters that are digits but not int-parseable
are in the model. str(n) is the relation "canonical ASCII decimal digits whose value is n".
A concatenation longer than L aborts the path as bound-exceeded (counted, never truncated).
"""
import sys
import time
import unicodedata

import z3


class Abort(BaseException):
    """infeasible path"""


class BoundExceeded(BaseException):
    """the path needs a string longer than L (outside the claim; counted)"""


class Unsupported(BaseException):
    """the path needs an operation the proxies do not model (counted as inconclusive)"""


# ---- exact character tables of this interpreter ------------------------------------------------------
def _ranges(pred):
    out, start = [], None
    for c in range(sys.maxunicode + 1):
        if pred(chr(c)):
            if start is None:
                start = c
        elif start is not None:
            out.append((start, c - 1))
            start = None
    if start is not None:
        out.append((start, sys.maxunicode))
    return out


def _decimal_blocks():
    """(zero code point) of every run of ten decimal digits; checks that decimals come in such runs"""
    zeros = []
    for c in range(sys.maxunicode + 1):
        ch = chr(c)
        d = unicodedata.decimal(ch, None)
        if d is not None:
            if d == 0:
                zeros.append(c)
            else:
                assert zeros and zeros[-1] + d == c, 'decimal digit outside a run of ten: %x' % c
    return zeros


ISDIGIT_RANGES_FULL = _ranges(str.isdigit)
DECIMAL_ZEROS_FULL = _decimal_blocks()

# Alphabets. 'full' = every code point. 'classes' = ASCII plus one representative of every character class the
# codec can tell apart through isdigit()/int()/comparison with - , / ? : a digit that int() rejects (U+00B2), a
# non-ASCII block of decimal digits (U+0660..0669), a BMP non-digit (U+00E9), a non-BMP non-digit (U+1F600), the
# last code point.
ALPHABETS = {
    'full': [(0, sys.maxunicode)],
    'classes': [(0, 127), (0xB2, 0xB2), (0xE9, 0xE9), (0x660, 0x669), (0x1F600, 0x1F600), (sys.maxunicode, sys.maxunicode)],
}
ALPHABET = 'classes'
ISDIGIT_RANGES = DECIMAL_ZEROS = None


def set_alphabet(name):
    global ALPHABET, ISDIGIT_RANGES, DECIMAL_ZEROS
    ALPHABET = name
    al = ALPHABETS[name]
    ISDIGIT_RANGES = []
    for a, b in ISDIGIT_RANGES_FULL:
        for x, y in al:
            lo, hi = max(a, x), min(b, y)
            if lo <= hi:
                ISDIGIT_RANGES.append((lo, hi))
    DECIMAL_ZEROS = [z for z in DECIMAL_ZEROS_FULL if any(x <= z and z + 9 <= y for x, y in al)]
    # a decimal block must be wholly inside or wholly outside the alphabet
    for z in DECIMAL_ZEROS_FULL:
        inside = [any(x <= c <= y for x, y in al) for c in range(z, z + 10)]
        assert all(inside) or not any(inside)


set_alphabet('classes')


def z_in_alphabet(c):
    return z3.Or(*[z3.And(c >= a, c <= b) if a != b else c == a for a, b in ALPHABETS[ALPHABET]])


def z_isdigit(c):
    return z3.Or(*[z3.And(c >= a, c <= b) if a != b else c == a for a, b in ISDIGIT_RANGES])


def z_isdecimal(c):
    return z3.Or(*[z3.And(c >= z, c <= z + 9) for z in DECIMAL_ZEROS])


def z_decval(c):
    e = z3.IntVal(0)
    for z in DECIMAL_ZEROS:
        e = z3.If(z3.And(c >= z, c <= z + 9), c - z, e)
    return e


def z_ascii_digit(c):
    return z3.And(c >= 48, c <= 57)


# ---- execution context -----------------------------------------------------------------------------------
class Ctx:
    def __init__(self, L, prefix=None, timeout_ms=60000):
        self.L = L
        import os
        self.solver = z3.SolverFor('QF_LIA') if os.environ.get('BSX_LIA', '1') == '1' else z3.Solver()
        self.solver.set('timeout', timeout_ms)
        self.prefix = prefix if prefix is not None else []
        self.pos = 0
        self.nq = 0
        self.tq = 0.0
        self.fresh_n = 0
        self.unknowns = 0
        self.model = None

    def check(self, *extra):
        t0 = time.monotonic()
        r = str(self.solver.check(*extra))
        self.tq += time.monotonic() - t0
        self.nq += 1
        if r == 'unknown':
            self.unknowns += 1
        return r

    def add(self, *cs):
        self.solver.add(*cs)
        self.model = None

    def _sat(self, cond):
        """is cond satisfiable together with the path condition? keeps a model of the path condition around
        so that one of the two sides of most branches needs no query"""
        if self.model is not None and z3.is_true(self.model.eval(cond, model_completion=True)):
            return 'sat', None
        r = self.check(cond)
        return r, (self.solver.model() if r == 'sat' else None)

    def decide(self, cond):
        cond = z3.simplify(cond)
        if z3.is_true(cond):
            return True
        if z3.is_false(cond):
            return False
        if self.pos < len(self.prefix):
            v = self.prefix[self.pos][0]
            self.pos += 1
            self.solver.add(cond if v else z3.Not(cond))
            self.model = None
            return v
        rt, mt = self._sat(cond)
        rf, mf = self._sat(z3.Not(cond))
        if rt == 'unknown' or rf == 'unknown':
            raise Unsupported('solver unknown at a branch')
        can_t, can_f = rt == 'sat', rf == 'sat'
        if not can_t and not can_f:
            raise Abort()
        if can_t and can_f:
            self.prefix.append([True, True])
        elif can_t:
            self.prefix.append([True, False])
        else:
            self.prefix.append([False, False])
        v = self.prefix[-1][0]
        self.pos += 1
        self.solver.add(cond if v else z3.Not(cond))
        m = mt if v else mf
        if m is not None:
            self.model = m       # a model of the new path condition
        # else: the cached model already satisfies the side taken and stays valid
        return v

    def fresh(self, base):
        self.fresh_n += 1
        return '%s!%d' % (base, self.fresh_n)


CTX = None


def lift(x):
    if isinstance(x, SInt):
        return x.e
    if isinstance(x, bool):
        return z3.BoolVal(x)
    if isinstance(x, int):
        return z3.IntVal(x)
    raise TypeError('cannot lift %r' % type(x))


class SBool:
    def __init__(self, e):
        self.e = e

    def __bool__(self):
        return CTX.decide(self.e)


class SInt:
    def __init__(self, e):
        self.e = e

    def _b(op):
        def f(self, o):
            if not isinstance(o, (int, SInt)):
                return NotImplemented
            return SBool(op(self.e, lift(o)))
        return f
    __lt__ = _b(lambda a, b: a < b)
    __le__ = _b(lambda a, b: a <= b)
    __gt__ = _b(lambda a, b: a > b)
    __ge__ = _b(lambda a, b: a >= b)

    def __eq__(self, o):
        if o is None or not isinstance(o, (int, SInt)):
            return False
        return SBool(self.e == lift(o))

    def __ne__(self, o):
        if o is None or not isinstance(o, (int, SInt)):
            return True
        return SBool(self.e != lift(o))

    def __add__(self, o):
        return SInt(self.e + lift(o))
    __radd__ = __add__

    def __sub__(self, o):
        return SInt(self.e - lift(o))

    def __rsub__(self, o):
        return SInt(lift(o) - self.e)

    def __bool__(self):
        return CTX.decide(self.e != 0)

    def __hash__(self):
        raise TypeError('symbolic int hashed')

    def __index__(self):
        raise Unsupported('symbolic int used as a concrete index')


class BStr:
    """bounded symbolic string: cap concrete code point expressions (cap <= L) and a z3 Int length n <= cap"""

    def __init__(self, chars, n):
        self.c = list(chars)
        self.cap = len(self.c)
        self.n = n

    @staticmethod
    def sym(name, minlen=0, maxlen=None):
        L = CTX.L
        cap = L if maxlen is None else min(L, maxlen)
        s = BStr([z3.Int('%s_%d' % (name, i)) for i in range(cap)], z3.Int(name + '_n'))
        CTX.add(s.n >= minlen, s.n <= cap)
        for ch in s.c:
            CTX.add(z_in_alphabet(ch))
        return s

    @staticmethod
    def const(t):
        if len(t) > CTX.L:
            raise BoundExceeded()
        return BStr([z3.IntVal(ord(x)) for x in t], z3.IntVal(len(t)))

    def at(self, i):
        if isinstance(i, int):
            return self.c[i] if 0 <= i < self.cap else z3.IntVal(-1)
        if z3.is_int_value(i):
            return self.at(i.as_long())
        e = z3.IntVal(-1)
        for k in reversed(range(self.cap)):
            e = z3.If(i == k, self.c[k], e)
        return e

    def __len__(self):
        raise TypeError('use the len shim')

    def slen(self):
        return SInt(self.n)

    def __bool__(self):
        return CTX.decide(self.n > 0)

    def __getitem__(self, ix):
        if isinstance(ix, slice):
            if ix.step is not None:
                raise Unsupported('slice step')
            a = z3.IntVal(0) if ix.start is None else lift(ix.start)
            b = self.n if ix.stop is None else lift(ix.stop)
            # the code under test only uses non-negative bounds; make that an obligation
            if not CTX.decide(z3.And(a >= 0, b >= 0)):
                raise Unsupported('negative slice bound')
            a_raw = z3.simplify(a)
            b_raw = z3.simplify(b)
            a = z3.simplify(z3.If(a > self.n, self.n, a))
            b = z3.simplify(z3.If(b > self.n, self.n, b))
            n = z3.simplify(z3.If(b - a > 0, b - a, 0))
            if z3.is_int_value(a_raw):
                # characters beyond the (clamped) length are never looked at, so direct indexing is exact
                av = a_raw.as_long()
                cap = max(0, self.cap - av)
                if z3.is_int_value(b_raw):
                    cap = max(0, min(cap, b_raw.as_long() - av))
                return BStr([self.c[av + i] for i in range(cap)], n)
            cap = self.cap
            if z3.is_int_value(b_raw):
                cap = min(cap, b_raw.as_long())
            return BStr([self.at(a + i) for i in range(cap)], n)
        i = lift(ix)
        if not CTX.decide(z3.And(i >= 0, i < self.n)):
            if CTX.decide(z3.And(i < 0, i >= -self.n)):
                raise Unsupported('negative index')
            raise IndexError('string index out of range')
        return BStr([self.at(ix if isinstance(ix, int) else i)], z3.IntVal(1))

    def find(self, t):
        if not (isinstance(t, str) and len(t) == 1):
            raise Unsupported('find of a non single-character needle')
        e = z3.IntVal(-1)
        for k in reversed(range(self.cap)):
            e = z3.If(z3.And(k < self.n, self.c[k] == ord(t)), k, e)
        return SInt(z3.simplify(e))

    def all_chars(self, pred):
        return z3.And(*[z3.Implies(k < self.n, pred(self.c[k])) for k in range(self.cap)])

    def isdigit(self):
        return SBool(z3.And(self.n > 0, self.all_chars(z_isdigit)))

    def eqe(self, o):
        if isinstance(o, str):
            if len(o) > CTX.L:
                return z3.BoolVal(False)
            o = BStr.const(o)
        if not isinstance(o, BStr):
            return z3.BoolVal(False)
        m = min(self.cap, o.cap)
        return z3.And(self.n == o.n, self.n <= m, *[z3.Implies(k < self.n, self.c[k] == o.c[k]) for k in range(m)])

    def __eq__(self, o):
        return SBool(self.eqe(o)) if isinstance(o, (str, BStr)) else False

    def __ne__(self, o):
        return SBool(z3.Not(self.eqe(o))) if isinstance(o, (str, BStr)) else True

    def __hash__(self):
        raise TypeError('symbolic str hashed')

    def decimal_value(self):
        v = z3.IntVal(0)
        for k in range(self.cap):
            v = z3.If(k < self.n, v * 10 + z_decval(self.c[k]), v)
        return v

    def concrete(self, model):
        n = model.eval(self.n, model_completion=True).as_long()
        return ''.join(chr(model.eval(self.c[k], model_completion=True).as_long()) for k in range(n))


def _concat(a, b):
    L = CTX.L
    if isinstance(a, str):
        a = BStr.const(a)
    if isinstance(b, str):
        b = BStr.const(b)
    if not isinstance(a, BStr) or not isinstance(b, BStr):
        return NotImplemented
    n = z3.simplify(a.n + b.n)
    if a.cap + b.cap > L and CTX.decide(n > L):
        raise BoundExceeded()
    cap = min(L, a.cap + b.cap)
    if z3.is_int_value(a.n):
        an = a.n.as_long()
        chars = [a.c[i] if i < an else b.at(i - an) for i in range(cap)]
    else:
        chars = [z3.If(i < a.n, a.c[i] if i < a.cap else z3.IntVal(0), b.at(i - a.n)) for i in range(cap)]
    return BStr(chars, n)


BStr.__add__ = lambda self, o: _concat(self, o)
BStr.__radd__ = lambda self, o: _concat(o, self)


# ---- shims installed over the module globals of the code under test -------------------------------------
def shim_int(x, *a):
    if isinstance(x, BStr):
        if a:
            raise Unsupported('int() with a base')
        alldec = z3.And(x.n > 0, x.all_chars(z_isdecimal))
        if CTX.decide(alldec):
            return SInt(x.decimal_value())
        # not all decimal: Python raises ValueError when the string is empty or consists of digit characters
        # that are not decimal; strings with whitespace / sign / underscore are not modelled
        simple = z3.Or(x.n <= 1, x.all_chars(lambda c: z3.And(c != 43, c != 45, c != 95, c < 128,
                                                              z3.Not(z3.And(c >= 9, c <= 13)),
                                                              z3.Not(z3.And(c >= 28, c <= 32)))),
                       x.all_chars(z_isdigit))
        if CTX.decide(simple):
            raise ValueError('invalid literal for int() with base 10')
        raise Unsupported('int() of a string with whitespace, sign, underscore or non-ASCII non-digit')
    if isinstance(x, SInt):
        return x
    return int(x, *a)


def shim_len(x):
    if isinstance(x, BStr):
        return x.slen()
    return len(x)


def shim_str(x='', *a):
    if isinstance(x, SInt):
        d = BStr.sym(CTX.fresh('digits'))
        canon = z3.And(d.n >= 1, d.all_chars(z_ascii_digit), z3.Implies(d.n > 1, d.c[0] != 48))
        # every non-negative value whose canonical form fits in L digits is representable; larger ones exceed
        # the bound
        if CTX.decide(x.e >= 10 ** CTX.L):
            raise BoundExceeded()
        if CTX.decide(x.e < 0):
            raise Unsupported('str() of a negative symbolic int')
        CTX.add(canon, d.decimal_value() == x.e)
        return d
    if isinstance(x, BStr):
        return x
    return str(x, *a)


class Shadow:
    """with Shadow(module): int/len/str of the module are the shims"""

    def __init__(self, module):
        self.m = module

    def __enter__(self):
        self.m.int, self.m.len, self.m.str = shim_int, shim_len, shim_str
        return self

    def __exit__(self, *a):
        for n in ('int', 'len', 'str'):
            if n in self.m.__dict__:
                delattr(self.m, n)
        return False


# ---- exploration ---------------------------------------------------------------------------------------------
def explore(fn, L, budget_s=600, prefix0=None, timeout_ms=60000):
    """DFS over decision prefixes. fn() returns a verdict tuple ('ok'|'violation'|'unknown', ...).
    Returns dict(paths, results, exhausted, queries, solver_time_s, aborted, bound_exceeded, unsupported)."""
    global CTX
    prefix = [list(x) for x in (prefix0 or [])]
    base = len(prefix)
    st = dict(paths=0, results=[], exhausted=False, queries=0, solver_time_s=0.0, infeasible=0, bound_exceeded=0,
              unsupported=0, unknown=0)
    t0 = time.monotonic()
    while True:
        CTX = Ctx(L, prefix, timeout_ms)
        try:
            r = fn()
            st['paths'] += 1
            st['results'].append(r)
        except Abort:
            st['infeasible'] += 1
        except BoundExceeded:
            st['bound_exceeded'] += 1
        except Unsupported as e:
            st['unsupported'] += 1
            st['results'].append(('unsupported', str(e)))
        st['queries'] += CTX.nq
        st['solver_time_s'] += CTX.tq
        st['unknown'] += CTX.unknowns
        prefix = CTX.prefix
        while len(prefix) > base and not (prefix[-1][1] and prefix[-1][0] is True):
            prefix.pop()
        if len(prefix) <= base:
            st['exhausted'] = True
            break
        prefix[-1] = [False, False]
        if time.monotonic() - t0 > budget_s:
            break
    st['wall_s'] = round(time.monotonic() - t0, 2)
    st['solver_time_s'] = round(st['solver_time_s'], 2)
    return st
