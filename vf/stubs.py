"""Environment stubs. Each one is part of every claim that uses it (listed in the evidence).

FakeEio / FakeAEio   engine.io server contract (python-engineio 4.14.0: server.py:84-128,
                     base_server.py:199-243, socket.py:117-130, server.py:445-471)
FakeEioClient(+A)    engine.io client state machine (client.py:117-139,437-440,533-541)
TokJson              JSON contract: loads(dumps(x)) == normalise(x), opaque text
NullLogger           logging with empty bodies
"""
import copy

import engineio
from engineio import packet as eio_packet


class NullLogger:
    level = 40

    def _n(self, *a, **k):
        pass
    debug = info = warning = error = exception = critical = log = _n

    def setLevel(self, *a):
        pass

    def addHandler(self, *a):
        pass

    def isEnabledFor(self, *a):
        return False


NULL_LOGGER = NullLogger()


# ---------------------------------------------------------------------------------------
class TokJson:
    """Abstract JSON text: dumps -> opaque token beginning with the real first character,
    loads(token) -> JSON-normalised deep copy (tuples become lists). Rejects what the real
    encoder rejects (bytes, non-string keys are coerced by real json; we only accept str
    keys, the domain of the properties)."""

    def __init__(self):
        self.tab = {}
        self.loads_calls = 0

    def norm(self, d):
        if isinstance(d, (list, tuple)):
            return [self.norm(x) for x in d]
        if isinstance(d, dict):
            return {k: self.norm(v) for k, v in d.items()}
        if isinstance(d, (bytes, bytearray)):
            raise TypeError('Object of type bytes is not JSON serializable')
        if isinstance(d, (set, frozenset)):
            raise TypeError('Object of type %s is not JSON serializable' % type(d).__name__)
        return d

    def dumps(self, data, separators=None, **kw):
        if separators is not None and tuple(separators) != (',', ':'):
            raise AssertionError('non-compact separators')
        n = self.norm(data)
        first = '[' if isinstance(data, (list, tuple)) else '{' if isinstance(data, dict) else \
            '"' if isinstance(data, str) else 'v'
        close = {'[': ']', '{': '}', '"': '"', 'v': ''}[first]
        tok = '%sJ%d%s' % (first, len(self.tab), close)
        self.tab[tok] = n
        return tok

    def loads(self, s, **kw):
        self.loads_calls += 1
        if isinstance(s, str) and s in self.tab:
            return self.norm(self.tab[s])
        raise ValueError('bad json')


def tok_packet_class(base=None):
    """a Packet subclass whose json is a fresh TokJson (per world)"""
    from socketio import packet
    base = base or packet.Packet
    J = TokJson()

    class P(base):
        json = J
    P.J = J
    return P


# ---------------------------------------------------------------------------------------
class Transport:
    def __init__(self, eio_sid):
        self.eio_sid = eio_sid
        self.session = {}
        self.outbox = []      # data of MESSAGE packets, in order
        self.state = 'open'   # open / closing / closed


class _FakeEioBase:
    async_mode = 'threading'

    def __init__(self, **kw):
        self.kw = kw
        self.h = {}
        self.n = 0
        self.t = {}            # eio_sid -> Transport
        self.sent_log = []     # (eio_sid, data) global order
        self.contained = []    # exceptions contained by _trigger (engine.io logs them)
        self.bg = []           # deferred background tasks
        self.bg_inline = True
        self.logger = NULL_LOGGER

    def on(self, ev, h=None):
        if h is None:
            def deco(f):
                self.h[ev] = f
                return f
            return deco
        self.h[ev] = h

    idprefix = 'S'      # hosts of a cluster get distinct prefixes (engine.io ids are globally unique)

    forced_ids = ()     # harness hook: the next ids to hand out (an application may configure predictable ids)

    def generate_id(self):
        if self.forced_ids:
            self.forced_ids = list(self.forced_ids)
            return self.forced_ids.pop(0)
        self.n += 1
        return '%s%d' % (self.idprefix, self.n)

    on_send = None      # harness hook: called after a packet was handed to a transport (the peer may answer at once)

    def _deliver(self, eio_sid, data):
        tr = self.t.get(eio_sid)
        if tr is None or tr.state == 'closed':
            return      # engine.io: "Cannot send to sid", dropped
        tr.outbox.append(data)
        self.sent_log.append((eio_sid, data))
        if self.on_send is not None:
            self.on_send(eio_sid, data)

    def get_session(self, eio_sid):
        tr = self.t.get(eio_sid)
        if tr is None or tr.state == 'closed':
            raise KeyError('Session not found')
        return tr.session

    def save_session(self, eio_sid, session):
        tr = self.t.get(eio_sid)
        if tr is None or tr.state == 'closed':
            raise KeyError('Session not found')
        tr.session = session

    def transport(self, eio_sid):
        return 'polling'

    def shutdown(self):
        pass

    # --- what the admin instrumentation touches ---------------------------------------------------------
    def _ok(self, packets=None, headers=None, jsonp_index=None):
        return {'status': '200 OK', 'headers': [], 'response': b''}

    def _get_socket(self, eio_sid):
        tr = self.t.get(eio_sid)
        if tr is None or tr.state == 'closed':
            raise KeyError('Session not found')
        tr.upgraded = False
        return tr

    @property
    def sockets(self):
        return {k: v for k, v in self.t.items() if v.state != 'closed'}

    @sockets.setter
    def sockets(self, v):
        pass


def _is_timer_task(target):
    # the admin UI's periodic statistics task (an endless sleep/emit loop driven by time): never scheduled here
    return getattr(target, '__name__', '') == '_emit_server_stats'


class FakeEio(_FakeEioBase):
    def send(self, eio_sid, data):
        self._deliver(eio_sid, data)

    def send_packet(self, eio_sid, pkt):
        if pkt.packet_type == eio_packet.MESSAGE:
            self._deliver(eio_sid, pkt.data)
        else:
            self._deliver(eio_sid, ('eio', pkt.packet_type, pkt.data))

    def start_background_task(self, target, *a, **kw):
        if _is_timer_task(target):
            return _DoneTask()
        if self.bg_inline:
            target(*a, **kw)
            return _DoneTask()
        self.bg.append((target, a, kw))
        return _DoneTask()

    def run_bg(self):
        while self.bg:
            target, a, kw = self.bg.pop(0)
            target(*a, **kw)

    def create_event(self):
        from .waithook import HookEvent
        return HookEvent()

    def sleep(self, s=0):
        pass

    # --- what engine.io does on behalf of a client ---------------------------------------
    def _trigger(self, ev, *args):
        try:
            return self.h[ev](*args)
        except Exception as e:      # engine.io logs and contains (server.py:461)
            self.contained.append((ev, e))
            return False if ev == 'connect' else None

    def open(self, eio_sid, environ=None):
        self.t[eio_sid] = Transport(eio_sid)
        return self._trigger('connect', eio_sid, environ if environ is not None else {'E': eio_sid})

    def recv(self, eio_sid, data):
        if eio_sid in self.t and self.t[eio_sid].state == 'open':
            return self._trigger('message', eio_sid, data)

    def recv_after_close(self, eio_sid, data):
        """a MESSAGE packet that follows a CLOSE packet in the same polling payload: engineio/socket.py:106-115 hands
        every packet of the payload to receive(), which does not look at `closed` for MESSAGE packets"""
        if eio_sid in self.t and self.t[eio_sid].state == 'closed':
            return self._trigger('message', eio_sid, data)

    def lose(self, eio_sid, reason='transport close'):
        tr = self.t.get(eio_sid)
        if tr is None or tr.state != 'open':
            return
        tr.state = 'closing'
        self._trigger('disconnect', eio_sid, reason)
        tr.state = 'closed'


class FakeAEio(_FakeEioBase):
    async_mode = 'asgi'

    async def get_session(self, eio_sid):
        return _FakeEioBase.get_session(self, eio_sid)

    async def save_session(self, eio_sid, session):
        return _FakeEioBase.save_session(self, eio_sid, session)

    async def send(self, eio_sid, data):
        # a send is a suspension point before and after the packet is handed to the transport
        from . import miniloop
        await miniloop.checkpoint('eio.send')
        self._deliver(eio_sid, data)
        await miniloop.checkpoint('eio.sent')

    async def send_packet(self, eio_sid, pkt):
        from . import miniloop
        await miniloop.checkpoint('eio.send_packet')
        if pkt.packet_type == eio_packet.MESSAGE:
            self._deliver(eio_sid, pkt.data)
        else:
            self._deliver(eio_sid, ('eio', pkt.packet_type, pkt.data))
        await miniloop.checkpoint('eio.sent')

    def start_background_task(self, target, *a, **kw):
        from . import miniloop
        if _is_timer_task(target):
            async def nothing():
                return None
            return miniloop.create_task(nothing())
        return miniloop.create_task(target(*a, **kw))

    def create_event(self):
        from . import miniloop
        return miniloop.Event()

    async def sleep(self, s=0):
        from . import miniloop
        await miniloop.sleep(s)

    async def _trigger(self, ev, *args):
        try:
            return await self.h[ev](*args)
        except Exception as e:
            self.contained.append((ev, e))
            return False if ev == 'connect' else None

    async def open(self, eio_sid, environ=None):
        self.t[eio_sid] = Transport(eio_sid)
        return await self._trigger('connect', eio_sid, environ if environ is not None else {'E': eio_sid})

    async def recv(self, eio_sid, data):
        if eio_sid in self.t and self.t[eio_sid].state == 'open':
            return await self._trigger('message', eio_sid, data)

    async def recv_after_close(self, eio_sid, data):
        """see FakeEio.recv_after_close (engineio/async_socket.py has the same loop)"""
        if eio_sid in self.t and self.t[eio_sid].state == 'closed':
            return await self._trigger('message', eio_sid, data)

    async def lose(self, eio_sid, reason='transport close'):
        tr = self.t.get(eio_sid)
        if tr is None or tr.state != 'open':
            return
        tr.state = 'closing'
        await self._trigger('disconnect', eio_sid, reason)
        tr.state = 'closed'


# ---------------------------------------------------------------------------------------
class _FakeEioClientBase:
    """engine.io client: state in {disconnected, connected, disconnecting}"""
    world = None     # object with connect_outcome(client) -> None | Exception

    def __init__(self, **kw):
        self.kw = kw
        self.state = 'disconnected'
        self.sid = None
        self.h = {}
        self.out = []           # frames handed to the transport, in order
        self.connects = []      # (url, headers, transports, engineio_path) per attempt
        self.conn_no = 0
        self.bg = []
        self.bg_inline = False
        self.contained = []
        self.logger = NULL_LOGGER

    def on(self, ev, h=None):
        self.h[ev] = h

    def transport(self):
        return 'polling'


class FakeEioClient(_FakeEioClientBase):
    def create_event(self):
        from .waithook import HookEvent
        return HookEvent()

    def connect(self, url, headers=None, transports=None, engineio_path='engine.io'):
        if self.state != 'disconnected':
            raise ValueError('Client is not in a disconnected state')
        self.connects.append((url, headers, transports, engineio_path))
        exc = self.world.connect_outcome(self) if self.world is not None else None
        if exc is not None:
            raise exc
        self.conn_no += 1
        self.sid = 'E%d' % self.conn_no
        self.state = 'connected'
        try:
            self.h['connect']()
        except Exception as e:     # client.py:233-237
            self.state = 'disconnected'
            self.sid = None
            raise engineio.exceptions.ConnectionError('Unexpected response from server') from e

    def send(self, data):
        if self.state != 'connected':   # client.py:449
            return
        self.out.append(data)

    def disconnect(self, abort=False, reason=None):
        if self.state == 'connected':
            self.out.append(('eio', 'CLOSE'))
            self.state = 'disconnecting'
            self._contained('disconnect', reason or 'client disconnect')
            self.state = 'disconnected'
        self.state = 'disconnected'
        self.sid = None

    def _contained(self, ev, *args):
        try:
            return self.h[ev](*args)
        except Exception as e:
            self.contained.append((ev, e))

    def start_background_task(self, target, *a, **kw):
        if self.bg_inline:
            target(*a, **kw)
            return _DoneTask()
        task = _DeferredTask(target, a, kw)
        self.bg.append(task)
        return task

    def run_bg(self):
        while self.bg:
            self.bg.pop(0).run()

    def sleep(self, s=0):
        pass

    def wait(self):
        pass

    # --- what the network does -----------------------------------------------------------
    def recv(self, data):
        """a MESSAGE packet arrives (handled inline, in arrival order)"""
        if self.state == 'connected':
            return self._contained('message', data)

    def lose(self):
        """abnormal loss (client.py:534-541)"""
        if self.state == 'connected':
            self._contained('disconnect', 'transport error')
            self.state = 'disconnected'
            self.sid = None

    def server_close(self):
        """engine.io CLOSE packet from the server (client.py:439-440)"""
        self.disconnect(abort=True, reason='server disconnect')


class _DoneTask:
    def join(self):
        pass


class _DeferredTask:
    def __init__(self, target, a, kw):
        self.target, self.a, self.kw = target, a, kw
        self.done = False

    def run(self):
        if not self.done:
            self.done = True
            self.target(*self.a, **self.kw)

    def join(self):
        self.run()


class FakeAEioClient(_FakeEioClientBase):
    def create_event(self):
        from . import miniloop
        return miniloop.Event()

    async def connect(self, url, headers=None, transports=None, engineio_path='engine.io'):
        from . import miniloop
        if self.state != 'disconnected':
            raise ValueError('Client is not in a disconnected state')
        self.connects.append((url, headers, transports, engineio_path))
        await miniloop.checkpoint('eioc.connect')
        exc = self.world.connect_outcome(self) if self.world is not None else None
        if exc is not None:
            raise exc
        self.conn_no += 1
        self.sid = 'E%d' % self.conn_no
        self.state = 'connected'
        try:
            await self.h['connect']()
        except Exception as e:
            self.state = 'disconnected'
            self.sid = None
            raise engineio.exceptions.ConnectionError('Unexpected response from server') from e

    async def send(self, data):
        from . import miniloop
        await miniloop.checkpoint('eioc.send')
        if self.state != 'connected':
            return
        self.out.append(data)

    async def disconnect(self, abort=False, reason=None):
        if self.state == 'connected':
            self.out.append(('eio', 'CLOSE'))
            self.state = 'disconnecting'
            await self._contained('disconnect', reason or 'client disconnect')
            self.state = 'disconnected'
        self.state = 'disconnected'
        self.sid = None

    async def _contained(self, ev, *args):
        try:
            return await self.h[ev](*args)
        except Exception as e:
            self.contained.append((ev, e))

    def start_background_task(self, target, *a, **kw):
        from . import miniloop
        return miniloop.create_task(target(*a, **kw))

    async def sleep(self, s=0):
        from . import miniloop
        await miniloop.sleep(s)

    async def wait(self):
        pass

    task_per_message = False

    async def recv(self, data):
        if self.state == 'connected':
            if self.task_per_message:
                # engineio.AsyncClient._receive_packet: _trigger_event('message', run_async=True) starts a task per
                # message (async_client.py); tasks start in arrival order
                from . import miniloop
                return miniloop.create_task(self._contained('message', data))
            return await self._contained('message', data)

    async def lose(self):
        if self.state == 'connected':
            await self._contained('disconnect', 'transport error')
            self.state = 'disconnected'
            self.sid = None

    async def server_close(self):
        await self.disconnect(abort=True, reason='server disconnect')
