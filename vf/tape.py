"""The tape: every undetermined quantity of a harness is drawn from it.

Three implementations share the interface:
  XhTape      - CrossHair symbolic values created on demand, range constraints added to the
                current StateSpace (the solver then decides every branch taken on them)
  ReplayTape  - pops recorded concrete values (plain CPython, no solver in the loop)
The harness is a plain function h(t) and never knows which tape it has.
"""
import json


class TapeExhausted(Exception):
    pass


class Fail:
    """A violated clause. sig is the stable signature used for known-finding matching."""

    def __init__(self, sig, detail=''):
        self.sig = sig
        self.detail = detail

    def __repr__(self):
        return 'Fail(%r, %r)' % (self.sig, self.detail)


class BaseTape:
    symbolic = False

    def __init__(self):
        self.reached_tags = []
        self.notes = []
        self.forced = []

    def force(self, values):
        """partitioning: the next len(values) choice() draws return these values (recorded on the
        tape like any other draw, so replays need no partition knowledge)"""
        self.forced = list(values)

    # -- bookkeeping used by harnesses -------------------------------------------------
    def reached(self, tag='oracle'):
        """Called by the harness when the oracle comparison is reached on a non-trivial
        scenario (vacuity witness)."""
        self.reached_tags.append(tag)

    def note(self, *a):
        self.notes.append(a)

    # -- derived draws ------------------------------------------------------------------
    def bool(self):
        return self.choice(2) == 1

    def pick(self, seq):
        seq = list(seq)
        return seq[self.choice(len(seq))]

    def subset(self, seq):
        return [x for x in seq if self.bool()]

    def leaf(self, kinds='nbisy', maxlen=2, lo=-3, hi=3):
        """None / bool / int / str / bytes leaf; kind concrete (solver-chosen), value symbolic"""
        k = kinds[self.choice(len(kinds))]
        if k == 'n':
            return None
        if k == 'b':
            return self.bool_value()
        if k == 'i':
            return self.int(lo, hi)
        if k == 's':
            return self.str(maxlen)
        if k == 'y':
            return self.bytes(maxlen)
        if k == 'f':
            return self.real(-2.0, 2.0)
        raise ValueError(k)

    def tree(self, depth=1, width=2, kinds='nbisy', maxlen=2):
        """JSON-with-bytes value: containers and keys concrete, leaves symbolic"""
        if depth <= 0:
            return self.leaf(kinds, maxlen)
        k = self.choice(3)
        if k == 0:
            return self.leaf(kinds, maxlen)
        n = self.choice(width + 1)
        if k == 1:
            return [self.tree(depth - 1, width, kinds, maxlen) for _ in range(n)]
        return {'k%d' % i: self.tree(depth - 1, width, kinds, maxlen) for i in range(n)}


class XhTape(BaseTape):
    symbolic = True

    def __init__(self):
        super().__init__()
        self.vals = []      # (kind, value) in draw order
        self.n = 0

    def _name(self, p):
        self.n += 1
        return '%s%d' % (p, self.n)

    def int(self, lo, hi):
        import z3
        from crosshair.libimpl.builtinslib import SymbolicInt
        from crosshair.statespace import context_statespace
        from crosshair.tracers import NoTracing
        with NoTracing():
            v = SymbolicInt(self._name('i'))
            cs = []
            if lo is not None:
                cs.append(v.var >= lo)
            if hi is not None:
                cs.append(v.var <= hi)
            if cs:
                context_statespace().add(z3.And(*cs))
            self.vals.append(['int', v])
        return v

    def choice(self, n):
        if n <= 1:
            return 0
        from crosshair.tracers import NoTracing
        if self.forced:
            r = self.forced.pop(0)
            if not 0 <= r < n:
                from crosshair.util import IgnoreAttempt
                raise IgnoreAttempt('forced choice out of range')
            with NoTracing():
                self.vals.append(['choice', r])
            return r
        v = self.int(0, n - 1)
        with NoTracing():
            self.vals.pop()
        # concretise by bisection: log2(n) solver-decided branches instead of n
        lo, hi = 0, n - 1
        while lo < hi:
            mid = (lo + hi) // 2
            if v <= mid:
                hi = mid
            else:
                lo = mid + 1
        r = lo
        with NoTracing():
            self.vals.append(['choice', r])
        return r

    def bool_value(self):
        return self.choice(2) == 1

    float_model = 'real'        # 'real' (default, an assumption) or 'ieee' (exact binary64, much slower)

    def real(self, lo, hi):
        import z3
        from crosshair.libimpl.builtinslib import RealBasedSymbolicFloat, PreciseIeeeSymbolicFloat, ModelingDirector
        from crosshair.statespace import context_statespace
        from crosshair.tracers import NoTracing
        with NoTracing():
            space = context_statespace()
            if self.float_model == 'ieee':
                space.extra(ModelingDirector).global_representations[float] = PreciseIeeeSymbolicFloat
                v = PreciseIeeeSymbolicFloat(self._name('f'))
                srt = v.var.sort()
                space.add(z3.And(z3.Not(z3.fpIsNaN(v.var)), z3.Not(z3.fpIsInf(v.var)),
                                 z3.fpGEQ(v.var, z3.FPVal(float(lo), srt)), z3.fpLEQ(v.var, z3.FPVal(float(hi), srt))))
            else:
                # floats are modelled as reals on this path (stated assumption); literals are promoted accordingly
                space.extra(ModelingDirector).global_representations[float] = RealBasedSymbolicFloat
                v = RealBasedSymbolicFloat(self._name('r'))
                space.add(z3.And(v.var >= lo, v.var <= hi))
            self.vals.append(['real', v])
        return v

    def str(self, maxlen):
        from crosshair.libimpl.builtinslib import LazyIntSymbolicStr
        from crosshair.statespace import context_statespace
        from crosshair.tracers import NoTracing
        with NoTracing():
            v = LazyIntSymbolicStr(self._name('s'))
            context_statespace().add(v._codepoints._len.var <= maxlen)
            self.vals.append(['str', v])
        return v

    def bytes(self, maxlen):
        from crosshair.libimpl.builtinslib import SymbolicBytes, SymbolicBoundedIntTuple
        from crosshair.statespace import context_statespace
        from crosshair.tracers import NoTracing
        with NoTracing():
            inner = SymbolicBoundedIntTuple([(0, 255)], self._name('y'))
            context_statespace().add(inner._len.var <= maxlen)
            v = SymbolicBytes(inner)
            self.vals.append(['bytes', v])
        return v

    def dump(self):
        """realise the tape (call with tracing on, at the end of a path)"""
        from crosshair.core import deep_realize
        out = []
        for kind, v in self.vals:
            r = deep_realize(v)
            if kind == 'bytes':
                r = bytes(r)
            if kind == 'real':
                r = float(r)
            out.append([kind, r])
        return out


class ReplayTape(BaseTape):
    def __init__(self, recorded):
        super().__init__()
        self.rec = list(recorded)
        self.pos = 0

    def _pop(self, kind):
        if self.pos >= len(self.rec):
            raise TapeExhausted('replay tape exhausted at %d (%s)' % (self.pos, kind))
        k, v = self.rec[self.pos]
        self.pos += 1
        if k != kind:
            raise TapeExhausted('replay tape kind mismatch at %d: recorded %s, asked %s' % (self.pos - 1, k, kind))
        return v

    def int(self, lo, hi):
        return self._pop('int')

    def choice(self, n):
        if n <= 1:
            return 0
        return self._pop('choice')

    def bool_value(self):
        return self.choice(2) == 1

    def real(self, lo, hi):
        return self._pop('real')

    def str(self, maxlen):
        return self._pop('str')

    def bytes(self, maxlen):
        return self._pop('bytes')


def tape_to_json(rec):
    out = []
    for k, v in rec:
        if k == 'bytes':
            v = {'hex': bytes(v).hex()}
        out.append([k, v])
    return out


def tape_from_json(rec):
    out = []
    for k, v in rec:
        if k == 'bytes':
            v = bytes.fromhex(v['hex'])
        out.append([k, v])
    return out


class _Null:
    def __enter__(self):
        return self

    def __exit__(self, *a):
        return False


def notrace():
    """`with notrace():` - concrete world construction is not traced by CrossHair (speed);
    a no-op outside the engine (concrete replays)."""
    try:
        from crosshair.tracers import NoTracing, is_tracing
    except ImportError:
        return _Null()
    if is_tracing():
        return NoTracing()
    return _Null()
