"""baton: real threading.Threads, exactly one runnable at a time (semaphore hand-off).
Pre-emption points are where the harness puts them (Proxy around an object: before every
method call; IEvent / IList for the simple client). The scheduler runs on the main
(CrossHair-traced) thread and picks the next thread with chooser(k); worker threads only
touch concrete data. A state with unfinished workers and no runnable one is *stuck*."""
import sys
import threading


class Sched:
    def __init__(self, chooser, max_decisions=200, fine_codes=(), preempt_budget=None):
        self.chooser = chooser
        # fine mode: every source line of the functions whose code objects are in fine_codes is a pre-emption
        # point of the worker threads (sys.settrace); preempt_budget bounds the number of pre-emptions (a thread
        # that could continue is suspended in favour of another) - context bounding; None = unbounded
        self.fine_codes = set(fine_codes)
        self.preempt_left = preempt_budget
        self.ws = []
        self.cur = None
        self.trace = []
        self.stuck = False
        self.decisions = 0
        self.switches = 0          # pre-emptions: a different thread resumed while the previous could continue
        self.max_decisions = max_decisions
        self.over_budget = False

    def spawn(self, fn, name):
        w = dict(name=name, go=threading.Semaphore(0), parked=threading.Semaphore(0), done=False, exc=None,
                 res=None, blocked=None, timed_out=False)

        def run():
            w['go'].acquire()
            if self.fine_codes:
                sys.settrace(self._tracer)
            try:
                w['res'] = fn()
            except Exception as e:
                w['exc'] = e
            finally:
                if self.fine_codes:
                    sys.settrace(None)
            w['done'] = True
            w['parked'].release()
        th = threading.Thread(target=run, daemon=True)
        th.start()
        self.ws.append(w)
        return w

    def _tracer(self, frame, event, arg):
        if event == 'call' and frame.f_code in self.fine_codes:
            return self._line
        return None

    def _line(self, frame, event, arg):
        if event == 'line':
            self.point('ln:%s+%d' % (frame.f_code.co_name, frame.f_lineno - frame.f_code.co_firstlineno))
        return self._line

    def point(self, label, blocked=None, args=None):
        """pre-emption point, called from a worker thread. blocked = (cond, may_time_out) makes the
        thread not runnable until cond() holds (or, if may_time_out, until the scheduler times it out).
        Returns True if resumed by time-out."""
        w = self.cur
        if w is None or threading.current_thread() is threading.main_thread():
            return False
        if blocked is None and self.preempt_left is not None and self.preempt_left <= 0:
            return False          # no pre-emption left: the thread simply goes on (nothing to decide, nothing recorded)
        w['blocked'] = blocked
        self.trace.append((w['name'], label) if args is None else (w['name'], label, args))
        w['parked'].release()
        w['go'].acquire()
        to = w['timed_out']
        w['timed_out'] = False
        w['blocked'] = None
        return to

    def run(self):
        last = None
        while True:
            opts = []
            for w in self.ws:
                if w['done']:
                    continue
                b = w['blocked']
                if b is None or b[0]():
                    opts.append((w, False))
                elif b[1]:
                    opts.append((w, True))
            if not opts:
                self.stuck = any(not w['done'] for w in self.ws)
                break
            k = 0
            if len(opts) > 1:
                self.decisions += 1
                if self.decisions > self.max_decisions:
                    self.over_budget = True
                    k = 0
                else:
                    k = self.chooser(len(opts))
            w, to = opts[k]
            if last is not None and w is not last and not last['done'] and any(o[0] is last for o in opts):
                self.switches += 1
                if self.preempt_left is not None:
                    self.preempt_left -= 1
            last = w
            w['timed_out'] = to
            self.cur = w
            w['go'].release()
            w['parked'].acquire()
        self.cur = None

    def kill_stuck(self):
        """release stuck workers so that the threads do not pile up (they see a time-out)"""
        for w in self.ws:
            if not w['done']:
                w['timed_out'] = True
                self.cur = w
                w['go'].release()
                w['parked'].acquire(timeout=1)
        self.cur = None


class Proxy:
    """pre-emption point before every method call on the target"""

    def __init__(self, target, sched, name, skip=(), rets=()):
        object.__setattr__(self, '_t', target)
        object.__setattr__(self, '_rets', set(rets))     # methods whose return is recorded in the trace too
        object.__setattr__(self, '_s', sched)
        object.__setattr__(self, '_n', name)
        object.__setattr__(self, '_skip', set(skip))

    def __getattr__(self, a):
        v = getattr(self._t, a)
        if callable(v) and a not in self._skip:
            def f(*args, **kw):
                sa = tuple(x for x in args[:2] if isinstance(x, str))
                self._s.point(self._n + '.' + a, args=sa)
                if a not in self._rets:
                    return v(*args, **kw)
                cur = self._s.cur
                if cur is not None and threading.current_thread() is not threading.main_thread():
                    self._s.trace.append((cur['name'], 'call:' + self._n + '.' + a, sa))
                r = v(*args, **kw)
                if cur is not None and threading.current_thread() is not threading.main_thread():
                    self._s.trace.append((cur['name'], 'ret:' + self._n + '.' + a, sa, r if isinstance(r, bool) else None))
                return r
            return f
        return v

    def __setattr__(self, a, v):
        setattr(self._t, a, v)
