"""xh driver: CrossHair's path-exploration loop (RootNode / StateSpace, as in
crosshair.core.explore_paths) driven directly, extended to keep statistics, to continue
after refuted paths (known findings / spurious counterexamples), and to replay every
counterexample concretely before it is reported."""
import os
import sys
import time
import traceback
from time import process_time, monotonic

import z3
import crosshair.core_and_libs  # noqa: F401  (registers all patches)
from crosshair.core import Patched, ExceptionFilter, deep_realize, realize
from crosshair.tracers import NoTracing, ResumedTracing, COMPOSITE_TRACER
from crosshair.statespace import (StateSpace, StateSpaceContext, RootNode, CallAnalysis,
                                  VerificationStatus)
from crosshair.util import IgnoreAttempt, UnexploredPath, NotDeterministic, CrossHairInternal
from crosshair.condition_parser import condition_parser
from crosshair.options import AnalysisKind

from .tape import XhTape, ReplayTape, Fail, TapeExhausted

# ---- solver accounting --------------------------------------------------------------
SOLVER = {'queries': 0, 'time': 0.0}
_orig_check = z3.Solver.check


def _counted_check(self, *a, **kw):
    t0 = monotonic()
    try:
        return _orig_check(self, *a, **kw)
    finally:
        SOLVER['queries'] += 1
        SOLVER['time'] += monotonic() - t0


z3.Solver.check = _counted_check

# ---- formatting of symbolic floats: empty body (log messages are not the subject of any property; CrossHair would
# otherwise realise the float, i.e. enumerate concrete values without bound) -----------------------------------------
import string as _string
from crosshair.libimpl.builtinslib import SymbolicFloat as _SymbolicFloat

_orig_format_field = _string.Formatter.format_field


def _format_field(self, value, format_spec):
    with NoTracing():
        sym = isinstance(value, _SymbolicFloat)
    if sym:
        return '<float>'
    return _orig_format_field(self, value, format_spec)


_string.Formatter.format_field = _format_field


def run_concrete(fn, part, rec):
    """plain CPython run of the harness on a recorded tape. Returns (verdict, tape)"""
    t = ReplayTape(rec)
    try:
        v = fn(t, part)
    except TapeExhausted as e:
        return Fail('replay-diverged', str(e)), t
    except Exception as e:  # an exception escaping the harness is a failure of its own kind
        tb = traceback.format_exc(limit=6)
        return Fail('exc:%s' % type(e).__name__, tb[-1500:]), t
    if v is None or v is True:
        return None, t
    if isinstance(v, Fail):
        return v, t
    return Fail('harness-returned', repr(v)), t


def explore(fn, part, budget_s=60.0, per_path_s=20.0, max_paths=10 ** 9, known_sigs=(), samples_wanted=3,
            stop_on_violation=True):
    """Explore all paths of fn(tape, part).

    Result dict: paths_confirmed / ignored / unknown / spurious / known / exhausted /
    violations[{sig, detail, tape}] / known_hits[{sig,...}] / samples / nontrivial / solver stats.
    """
    root = RootNode()
    t_start = monotonic()
    cpu0 = process_time()
    st = dict(part=part, confirmed=0, ignored=0, unknown=0, spurious=0, known=0, iters=0, exhausted=False,
              nontrivial=0, violations=[], known_hits=[], samples=[], errors=[], witness_checked=0,
              witness_ok=0, notes=[])
    q0, qt0 = SOLVER['queries'], SOLVER['time']
    known_sigs = set(known_sigs)
    seen_sigs = set()
    stop_at_first = bool(os.environ.get('VERIF_STOP_AT_FIRST'))     # evaluation of seeded changes: one counterexample suffices
    while st['iters'] < max_paths:
        if monotonic() - t_start > budget_s:
            break
        if stop_at_first and st['violations']:
            break
        st['iters'] += 1
        now = process_time()
        space = StateSpace(execution_deadline=now + per_path_s, model_check_timeout=per_path_s / 2,
                           search_root=root)
        refuted = None      # recorded tape of a failing path
        sample = None
        status = None
        q_before = SOLVER['queries']
        with condition_parser([AnalysisKind.PEP316]), Patched(), COMPOSITE_TRACER, NoTracing(), \
                StateSpaceContext(space):
            tape = XhTape()
            try:
                with ExceptionFilter() as ef, ResumedTracing():
                    ret = fn(tape, part)
                if ef.user_exc:
                    exc = ef.user_exc[0]
                    if isinstance(exc, NotDeterministic):
                        st['errors'].append('NotDeterministic')
                        st['unknown'] += 1
                        status = VerificationStatus.UNKNOWN
                    else:
                        with ResumedTracing():
                            refuted = tape.dump()
                        status = VerificationStatus.CONFIRMED   # revised below after replay
                elif ef.ignore:
                    if ef.analysis and ef.analysis.verification_status == VerificationStatus.UNKNOWN:
                        st['unknown'] += 1
                        status = VerificationStatus.UNKNOWN
                    else:
                        st['ignored'] += 1
                        status = None
                else:
                    with ResumedTracing():
                        ok = realize(ret is None or ret is True)
                    if ok:
                        st['confirmed'] += 1
                        status = VerificationStatus.CONFIRMED
                        if tape.reached_tags and tape.vals:
                            st['nontrivial'] += 1
                        if tape.reached_tags and st['witness_checked'] < samples_wanted:
                            with ResumedTracing():
                                sample = tape.dump()
                    else:
                        fsig = ret.sig if isinstance(ret, Fail) else None
                        if fsig is not None and fsig in known_sigs and fsig in seen_sigs:
                            # this known finding was already confirmed by a concrete replay in this partition
                            st['known'] += 1
                        else:
                            with ResumedTracing():
                                refuted = tape.dump()
                        status = VerificationStatus.CONFIRMED
            except IgnoreAttempt:
                st['ignored'] += 1
                status = None
            except UnexploredPath:
                st['unknown'] += 1
                status = VerificationStatus.UNKNOWN
            except CrossHairInternal as e:
                st['errors'].append('CrossHairInternal: %s' % str(e)[:200])
                st['unknown'] += 1
                status = VerificationStatus.UNKNOWN
            try:
                _a, exhausted = space.bubble_status(CallAnalysis(status))
            except Exception as e:  # search-tree inconsistency
                st['errors'].append('bubble: %r' % (e,))
                exhausted = False
                break
        # ---- outside the engine: concrete replays --------------------------------------
        if sample is not None:
            st['witness_checked'] += 1
            v, rt = run_concrete(fn, part, sample)
            if v is None and rt.reached_tags:
                st['witness_ok'] += 1
                st['samples'].append({'tape': sample, 'reached': rt.reached_tags[:4], 'notes': rt.notes[:6]})
            else:
                st['errors'].append('confirmed path does not replay as confirmed: %r reached=%r tape=%r' % (
                    v, rt.reached_tags, sample))
        if refuted is not None:
            v, rt = run_concrete(fn, part, refuted)
            if v is None:
                st['spurious'] += 1
                st['notes'].append('spurious counterexample (does not reproduce): %r' % (refuted,))
            elif v.sig in known_sigs:
                st['known'] += 1
                if v.sig not in seen_sigs:
                    seen_sigs.add(v.sig)
                    st['known_hits'].append({'sig': v.sig, 'detail': v.detail[:600], 'tape': refuted})
            else:
                if v.sig not in seen_sigs:
                    seen_sigs.add(v.sig)
                    st['violations'].append({'sig': v.sig, 'detail': v.detail[:2000], 'tape': refuted})
                if stop_on_violation:
                    break
        if exhausted:
            st['exhausted'] = True
            break
    if st['spurious'] or st['unknown']:
        # a bounded space with undecided paths is not exhausted in the sense of the claim
        st['exhausted_clean'] = False
    else:
        st['exhausted_clean'] = st['exhausted']
    st['solver_queries'] = SOLVER['queries'] - q0
    st['solver_time_s'] = round(SOLVER['time'] - qt0, 3)
    st['cpu_s'] = round(process_time() - cpu0, 2)
    st['wall_s'] = round(monotonic() - t_start, 2)
    return st
