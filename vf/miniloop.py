"""miniloop: a deterministic stand-in for the asyncio names used by socketio.async_*.

Semantics (asyncio's own, with time and I/O completion made nondeterministic inputs):
  * ready queue is FIFO (call_soon order); a newly created task goes to its tail
  * `await sleep(..)` yields once (tail of the ready queue)   [time is not modelled]
  * `await checkpoint(label)` is an I/O wait: the task is parked until the scheduler
    chooses to complete it (then it goes to the tail of the ready queue)
  * `await Event.wait()` / awaiting an unfinished Task blocks until the condition holds;
    under wait_for(.., timeout) the scheduler may instead time it out while it does not hold
  * at every scheduling step the options are: run the head of the ready queue, complete one
    parked I/O, time out one timed wait. `chooser(n)` picks (default 0 = FIFO / first option).
A state with unfinished tasks and no option is a deadlock (reported, never a pass).
"""
import inspect
import asyncio as _aio

TimeoutError = _aio.TimeoutError
CancelledError = _aio.CancelledError
iscoroutinefunction = inspect.iscoroutinefunction
iscoroutine = inspect.iscoroutine


class Deadlock(Exception):
    pass


class StepBudget(Exception):
    pass


class _Suspend:
    __slots__ = ('kind', 'cond', 'timeout', 'label')

    def __init__(self, kind, cond=None, timeout=None, label=''):
        self.kind = kind        # 'yield' | 'io' | 'cond'
        self.cond = cond
        self.timeout = timeout
        self.label = label

    def __await__(self):
        return (yield self)


class Task:
    def __init__(self, coro, name):
        self.coro = coro
        self.name = name
        self.done_ = False
        self.result_ = None
        self.exc = None
        self.waiting = None
        self.cbs = []
        self.exc_retrieved = False

    def done(self):
        return self.done_

    def add_done_callback(self, cb):
        self.cbs.append(cb)

    def result(self):
        if self.exc:
            self.exc_retrieved = True
            raise self.exc
        return self.result_

    def cancelled(self):
        return self.done_ and isinstance(self.exc, CancelledError)

    def exception(self):
        self.exc_retrieved = True
        if isinstance(self.exc, CancelledError):
            raise self.exc          # like asyncio.Task.exception() on a cancelled task
        return self.exc

    def cancel(self):
        return False

    def __await__(self):
        if not self.done_:
            yield _Suspend('cond', lambda: self.done_, None, 'join ' + self.name)
        if self.exc:
            self.exc_retrieved = True
            raise self.exc
        return self.result_

    # engine.io style
    async def join(self):
        return await self


class Loop:
    def __init__(self, chooser=None, max_steps=400):
        self.tasks = []
        self.ready = []         # FIFO of tasks
        self.parked = []        # io-parked tasks
        self.blocked = []       # cond-blocked tasks
        self.n = 0
        self.trace = []
        self.chooser = chooser or (lambda n: 0)
        self.max_steps = max_steps
        self.steps = 0
        self.decisions = 0

    def create_task(self, coro, name=None):
        self.n += 1
        t = Task(coro, name or 'T%d' % self.n)
        self.tasks.append(t)
        self.ready.append(t)
        return t

    def _wake(self):
        still = []
        for t in self.blocked:
            if t.waiting.cond():
                self.ready.append(t)
            else:
                still.append(t)
        self.blocked = still

    def _step(self, t, timed_out=False):
        t.waiting = None
        try:
            if timed_out:
                req = t.coro.throw(TimeoutError())
            else:
                req = t.coro.send(None)
        except StopIteration as e:
            t.done_ = True
            t.result_ = e.value
            req = None
        except (Exception, CancelledError) as e:      # a cancelled task ends with CancelledError like in asyncio
            t.done_ = True
            t.exc = e
            req = None
        if t.done_:
            for cb in t.cbs:
                cb(t)
            return
        t.waiting = req
        if not isinstance(req, _Suspend):
            raise RuntimeError('task awaited a non-miniloop awaitable: %r' % (req,))
        if req.kind == 'yield':
            self.ready.append(t)
        elif req.kind == 'io':
            self.parked.append(t)
        else:
            if req.cond():
                self.ready.append(t)
            else:
                self.blocked.append(t)

    def run_until(self, cond):
        """run until cond() holds"""
        while not cond():
            self.steps += 1
            if self.steps > self.max_steps:
                raise StepBudget('more than %d scheduler steps' % self.max_steps)
            self._wake()
            opts = []
            if self.ready:
                opts.append(('run', self.ready[0]))
            for t in self.parked:
                opts.append(('io', t))
            for t in self.blocked:
                if t.waiting.timeout is not None:
                    opts.append(('timeout', t))
            if not opts:
                raise Deadlock('no runnable task; blocked: %r' % [(t.name, t.waiting.label) for t in self.blocked])
            k = 0
            if len(opts) > 1:
                self.decisions += 1
                k = self.chooser(len(opts))
            kind, t = opts[k]
            self.trace.append((kind, t.name))
            if kind == 'run':
                self.ready.pop(0)
                self._step(t)
            elif kind == 'io':
                self.parked.remove(t)
                self.ready.append(t)
            else:
                self.blocked.remove(t)
                self._step(t, timed_out=True)

    def settle(self):
        """run until nothing is ready or parked (blocked tasks whose condition became true are woken first)"""
        while True:
            self._wake()
            if not self.ready and not self.parked:
                return
            self.run_until(lambda: not self.ready and not self.parked)

    def run(self, main):
        mt = self.create_task(main, 'main')
        self.run_until(lambda: mt.done_)
        if mt.exc:
            raise mt.exc
        return mt.result_

    def drain(self):
        """run everything that can still run without timing anything out or completing I/O?
        No: run until every task is done (I/O completes, timed waits expire as chosen)."""
        self.run_until(lambda: all(t.done_ for t in self.tasks))


LOOP = None


def _finalize_asyncgen(agen):
    # like asyncio's BaseEventLoop._asyncgen_finalizer_hook: an async generator that is dropped before it is exhausted
    # is closed by a task of the loop, i.e. *later* than the statement that dropped it
    if LOOP is not None:
        LOOP.create_task(agen.aclose(), 'aclose')


def new_loop(chooser=None, max_steps=400):
    global LOOP
    import sys
    LOOP = Loop(chooser, max_steps)
    sys.set_asyncgen_hooks(finalizer=_finalize_asyncgen)
    return LOOP


def create_task(coro, name=None):
    return LOOP.create_task(coro, name)


ensure_future = create_task


async def sleep(s=0):
    await _Suspend('yield', label='sleep')


async def checkpoint(label='io'):
    await _Suspend('io', label=label)


async def wait(tasks, timeout=None, return_when=None):
    tasks = list(tasks)
    if not tasks:
        raise ValueError('Set of Tasks/Futures is empty.')      # as asyncio.wait does
    for t in tasks:
        if not t.done_:
            await _Suspend('cond', lambda t=t: t.done_, None, 'wait ' + t.name)
    return set(tasks), set()


async def gather(*ts, return_exceptions=False):
    tasks = [create_task(t) if inspect.iscoroutine(t) else t for t in ts]
    out = []
    for t in tasks:
        try:
            out.append(await t)
        except Exception as e:
            if not return_exceptions:
                raise
            out.append(e)
    return out


class Event:
    def __init__(self):
        self.f = False

    def set(self):
        self.f = True

    def clear(self):
        self.f = False

    def is_set(self):
        return self.f

    async def wait(self):
        if not self.f:
            await _Suspend('cond', lambda: self.f, None, 'event')
        return True


async def wait_for(aw, timeout):
    """drive the inner awaitable, tagging its blocking suspensions with the timeout"""
    if isinstance(aw, Task):
        if not aw.done_:
            await _Suspend('cond', lambda: aw.done_, timeout, 'wait_for ' + aw.name)
        return aw.result()
    try:
        req = aw.send(None)
        while True:
            if req.kind == 'cond' and timeout is not None:
                req = _Suspend('cond', req.cond, timeout, req.label)
            try:
                v = await req
            except TimeoutError:
                aw.close()
                raise
            req = aw.send(v)
    except StopIteration as e:
        return e.value


def install(*modules):
    """rebind the module global `asyncio` of the given socketio.async_* modules"""
    import sys
    me = sys.modules[__name__]
    for m in modules:
        m.asyncio = me


def install_all():
    import socketio.async_server
    import socketio.async_client
    import socketio.async_manager
    import socketio.async_pubsub_manager
    import socketio.async_namespace
    import socketio.async_simple_client
    import socketio.async_admin
    install(socketio.async_server, socketio.async_client, socketio.async_manager,
            socketio.async_pubsub_manager, socketio.async_namespace,
            socketio.async_simple_client, socketio.async_admin)
