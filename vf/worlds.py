"""World construction: real socketio classes on the stubs of vf.stubs."""
import socketio
from socketio import packet

from . import stubs, miniloop, waithook


class HServer(socketio.Server):
    def _engineio_server_class(self):
        return stubs.FakeEio


class HAServer(socketio.AsyncServer):
    def _engineio_server_class(self):
        return stubs.FakeAEio


class HClient(socketio.Client):
    def _engineio_client_class(self):
        return stubs.FakeEioClient


class HAClient(socketio.AsyncClient):
    def _engineio_client_class(self):
        return stubs.FakeAEioClient


def make_server(asyncio_=False, P=None, **kw):
    """returns (server, eio, P). Real BaseServer.__init__ runs; engine.io is the fake."""
    P = P or stubs.tok_packet_class()
    kw.setdefault('logger', stubs.NULL_LOGGER)
    kw.setdefault('serializer', P)
    cls = HAServer if asyncio_ else HServer
    if P == 'msgpack':
        s = cls(**kw)
        return s, s.eio, s.packet_class
    s = cls(**kw)
    return s, s.eio, P


def make_client(asyncio_=False, P=None, **kw):
    P = P or stubs.tok_packet_class()
    kw.setdefault('logger', stubs.NULL_LOGGER)
    kw.setdefault('serializer', P)
    kw.setdefault('handle_sigint', False)
    cls = HAClient if asyncio_ else HClient
    c = cls(**kw)
    return c, c.eio, P


def decode_frames(P, frames):
    """decode a list of frames (text frame followed by its attachments, repeatedly) into packets"""
    out = []
    cur = None
    for f in frames:
        if cur is not None:
            if cur.add_attachment(f):
                out.append(cur)
                cur = None
            continue
        if not isinstance(f, str):
            out.append(('raw', f))
            continue
        p = P(encoded_packet=f)
        if p.attachment_count > 0:
            cur = p
        else:
            out.append(p)
    if cur is not None:
        out.append(('incomplete', cur))
    return out


def pk(p):
    """comparable view of a packet"""
    if isinstance(p, tuple):
        return p
    return (p.packet_type, p.namespace or '/', p.id, p.data)


def encode_frames(pkt):
    e = pkt.encode()
    return e if isinstance(e, list) else [e]


class SyncDriver:
    """drive a threaded server: all calls are direct"""
    asyncio_ = False

    def __init__(self, chooser=None):
        pass

    def call(self, x):
        return x

    def finish(self):
        pass


class AsyncDriver:
    """drive an asyncio class on miniloop: each API call is run to completion (FIFO unless a
    chooser is given), background tasks are joined by finish()"""
    asyncio_ = True

    def __init__(self, chooser=None, max_steps=600):
        miniloop.install_all()
        self.loop = miniloop.new_loop(chooser, max_steps)

    def call(self, coro):
        if not miniloop.iscoroutine(coro):
            return coro
        t = self.loop.create_task(coro)
        self.loop.run_until(lambda: t.done_)
        return t.result()

    def finish(self):
        self.loop.drain()


def inj_packet_class(base=None):
    """Packet class for flow harnesses: TokJson for payload text, plus *injection*: a frame that is
    an Inj token decodes to pre-made fields (symbolic ids etc. reach the real dispatch code without
    going through the text codec, which is C01/C12's subject)."""
    P = stubs.tok_packet_class(base)
    P.injected = {}
    orig_decode = P.decode

    def decode(self, encoded_packet):
        if isinstance(encoded_packet, str) and encoded_packet in P.injected:
            f = P.injected[encoded_packet]
            self.packet_type = f['type']
            self.namespace = f.get('namespace')
            self.id = f.get('id')
            self.data = f.get('data')
            return f.get('count', 0)
        return orig_decode(self, encoded_packet)

    def inject(**fields):
        tok = 'INJ%d' % len(P.injected)
        P.injected[tok] = fields
        return tok
    P.decode = decode
    P.inject = staticmethod(inject)
    return P


class SWorld:
    """a real Server / AsyncServer on the fake engine.io, driven through the callbacks engine.io
    would call (whatever is registered with eio.on at that moment)"""

    def __init__(self, asyncio_=False, chooser=None, P=None, max_steps=600, drv=None, **kw):
        self.asyncio_ = asyncio_
        self.drv = drv or (AsyncDriver(chooser, max_steps) if asyncio_ else SyncDriver())
        self.s, self.eio, self.P = make_server(asyncio_, P=P or inj_packet_class(), **kw)
        self.pos = {}

    def call(self, x):
        return self.drv.call(x)

    def open(self, e, environ=None):
        return self.call(self.eio.open(e, environ))

    def recv(self, e, frame):
        return self.call(self.eio.recv(e, frame))

    def send(self, e, pkt):
        for f in encode_frames(pkt):
            self.recv(e, f)

    def pkt(self, *a, **kw):
        return self.P(*a, **kw)

    def lose(self, e, reason='transport close'):
        return self.call(self.eio.lose(e, reason))

    def frames(self, e):
        return list(self.eio.t[e].outbox) if e in self.eio.t else []

    def take(self, e):
        """packets queued for transport e since the last take"""
        fr = self.frames(e)
        new = fr[self.pos.get(e, 0):]
        self.pos[e] = len(fr)
        return decode_frames(self.P, new)

    def take_all(self):
        return {e: [pk(p) for p in self.take(e)] for e in self.eio.t}

    def sid(self, e, ns):
        return self.s.manager.sid_from_eio_sid(e, ns)

    def connect(self, e, ns='/', auth=None):
        """CONNECT; returns the sid the server answered with (None when refused)"""
        before = len(self.frames(e))
        self.send(e, self.P(packet.CONNECT, data=auth, namespace=ns))
        for p in decode_frames(self.P, self.frames(e)[before:]):
            if not isinstance(p, tuple) and p.packet_type == packet.CONNECT and (p.namespace or '/') == ns:
                return p.data['sid']
        return None

    def finish(self):
        self.drv.finish()


def _norm(v, depth=0):
    if hasattr(v, '_fwdm'):
        v = dict(v._fwdm)
    if isinstance(v, dict):
        return {k: _norm(x, depth + 1) for k, x in v.items()}
    if isinstance(v, (list, tuple, set, frozenset)):
        return [_norm(x, depth + 1) for x in v]
    if v is None or isinstance(v, (bool, int, float, str, bytes)):
        return v
    return '<%s>' % type(v).__name__


SKIP_ATTRS = {'handlers', 'namespace_handlers', 'namespaces', 'logger', 'server', 'eio', 'manager', 'packet_class'}


def containers(obj, prefix):
    """every dict / list / set attribute of obj (generic: new state attributes are picked up automatically)"""
    out = {}
    for name, v in vars(obj).items():
        if name in SKIP_ATTRS:
            continue
        if isinstance(v, (dict, list, set)) or hasattr(v, '_fwdm'):
            out['%s.%s' % (prefix, name)] = v
    return out


def server_state(s):
    """everything the server and its manager keep in containers (snapshot for equality checks)"""
    out = {}
    for k, v in containers(s.manager, 'manager').items():
        out[k] = _norm(v)
    for k, v in containers(s, 'server').items():
        out[k] = _norm(v)
    return out


def find_refs(v, needles, path, out, depth=0):
    """paths inside container v at which any of the needles occurs as a key, element or value"""
    if depth > 6:
        return
    if hasattr(v, '_fwdm'):
        v = dict(v._fwdm)
    if isinstance(v, dict):
        for k, x in v.items():
            if isinstance(k, str) and k in needles:
                out.append('%s[%s]' % (path, k))
            find_refs(x, needles, '%s[%r]' % (path, k), out, depth + 1)
    elif isinstance(v, (list, tuple, set, frozenset)):
        for x in v:
            find_refs(x, needles, path + '[]', out, depth + 1)
    elif isinstance(v, str) and v in needles:
        out.append(path)


def client_residue(s, needles):
    """where the server or its manager still mention any of the given ids"""
    out = []
    for k, v in list(containers(s.manager, 'manager').items()) + list(containers(s, 'server').items()):
        find_refs(v, set(needles), k, out)
    return out


class CWorld:
    """a real Client / AsyncClient on the fake engine.io client; the harness plays the server"""

    def __init__(self, asyncio_=False, chooser=None, P=None, max_steps=600, world=None, **kw):
        self.asyncio_ = asyncio_
        self.drv = AsyncDriver(chooser, max_steps) if asyncio_ else SyncDriver()
        kw.setdefault('reconnection', False)
        self.c, self.eio, self.P = make_client(asyncio_, P=P or inj_packet_class(), **kw)
        self.eio.world = world
        self.pos = 0
        self.nsid = 0

    def call(self, x):
        return self.drv.call(x)

    def recv(self, frame):
        return self.call(self.eio.recv(frame))

    def send(self, pkt):
        """the server sends a packet"""
        for f in encode_frames(pkt):
            self.recv(f)

    def take(self):
        new = self.eio.out[self.pos:]
        self.pos = len(self.eio.out)
        return decode_frames(self.P, [f for f in new if not isinstance(f, tuple)])

    def connect(self, namespaces=('/',), accept=True, **kw):
        """client.connect(wait=False) followed by the server's CONNECT answers"""
        self.call(self.c.connect('http://h', namespaces=list(namespaces), wait=False, **kw))
        self.take()
        if accept:
            for ns in namespaces:
                self.accept(ns)

    def accept(self, ns):
        self.nsid += 1
        self.send(self.P(packet.CONNECT, data={'sid': 'sid%d' % self.nsid}, namespace=ns))
        return 'sid%d' % self.nsid

    def finish(self):
        self.drv.finish()


class RealizingMsgpack:
    """msgpack is a C extension: symbolic values are realised at this boundary (one representative per path)"""

    def __init__(self):
        import msgpack
        self.m = msgpack

    def dumps(self, x, **kw):
        try:
            from crosshair.core import deep_realize
            from crosshair.tracers import is_tracing
            if is_tracing():
                x = deep_realize(x)
        except ImportError:
            pass
        return self.m.dumps(x, **kw)

    def loads(self, b, **kw):
        return self.m.loads(b, **kw)


class Link:
    """a real client and a real server joined back to back; pump() moves frames both ways until quiescent"""

    def __init__(self, asyncio_=False, serializer='default', namespaces=('/', '/a'), task_per_message=True):
        import socketio.msgpack_packet
        self.asyncio_ = asyncio_
        self.drv = AsyncDriver(None, 4000) if asyncio_ else SyncDriver()
        if serializer == 'msgpack':
            socketio.msgpack_packet.msgpack = RealizingMsgpack()
            P = 'msgpack'
            self.s, self.seio, self.P = make_server(asyncio_, P='msgpack', async_handlers=False, namespaces=list(namespaces))
            kw = dict(logger=stubs.NULL_LOGGER, serializer='msgpack', handle_sigint=False, reconnection=False)
            self.c = (HAClient if asyncio_ else HClient)(**kw)
            self.ceio = self.c.eio
        else:
            P = inj_packet_class()
            self.s, self.seio, self.P = make_server(asyncio_, P=P, async_handlers=False, namespaces=list(namespaces))
            self.c, self.ceio, _ = make_client(asyncio_, P=P, reconnection=False)
        self.ceio.task_per_message = task_per_message
        self.cpos = 0
        self.spos = 0
        self.namespaces = list(namespaces)

    def call(self, x):
        return self.drv.call(x)

    def pump_once(self):
        moved = False
        out = self.ceio.out
        while self.cpos < len(out):
            f = out[self.cpos]
            self.cpos += 1
            if isinstance(f, tuple):
                continue
            moved = True
            self.call(self.seio.recv('e0', f))
        box = self.seio.t['e0'].outbox if 'e0' in self.seio.t else []
        while self.spos < len(box):
            f = box[self.spos]
            self.spos += 1
            moved = True
            self.call(self.ceio.recv(f))
        return moved

    def pump(self):
        for _ in range(50):
            if not self.pump_once():
                if self.asyncio_:
                    lp = self.drv.loop
                    lp._wake()
                    if lp.ready or lp.parked:
                        lp.settle()
                        continue
                return
        raise RuntimeError('link does not quiesce')

    def connect(self):
        self.call(self.seio.open('e0'))
        self.call(self.c.connect('http://h', namespaces=self.namespaces, wait=False))
        self.pump()
        return {ns: self.c.get_sid(ns) for ns in self.namespaces}
