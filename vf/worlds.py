"""World construction: real socketio classes on the stubs of vf.stubs."""
import socketio
from socketio import packet

from . import stubs, miniloop, waithook


class HServer(socketio.Server):
    def _engineio_server_class(self):
        return stubs.FakeEio


class HAServer(socketio.AsyncServer):
    def _engineio_server_class(self):
        return stubs.FakeAEio


class HClient(socketio.Client):
    def _engineio_client_class(self):
        return stubs.FakeEioClient


class HAClient(socketio.AsyncClient):
    def _engineio_client_class(self):
        return stubs.FakeAEioClient


def make_server(asyncio_=False, P=None, **kw):
    """returns (server, eio, P). Real BaseServer.__init__ runs; engine.io is the fake."""
    P = P or stubs.tok_packet_class()
    kw.setdefault('logger', stubs.NULL_LOGGER)
    kw.setdefault('serializer', P)
    cls = HAServer if asyncio_ else HServer
    s = cls(**kw)
    return s, s.eio, P


def make_client(asyncio_=False, P=None, **kw):
    P = P or stubs.tok_packet_class()
    kw.setdefault('logger', stubs.NULL_LOGGER)
    kw.setdefault('serializer', P)
    kw.setdefault('handle_sigint', False)
    cls = HAClient if asyncio_ else HClient
    c = cls(**kw)
    return c, c.eio, P


def decode_frames(P, frames):
    """decode a list of frames (text frame followed by its attachments, repeatedly) into packets"""
    out = []
    cur = None
    for f in frames:
        if cur is not None:
            if cur.add_attachment(f):
                out.append(cur)
                cur = None
            continue
        if not isinstance(f, str):
            out.append(('raw', f))
            continue
        p = P(encoded_packet=f)
        if p.attachment_count > 0:
            cur = p
        else:
            out.append(p)
    if cur is not None:
        out.append(('incomplete', cur))
    return out


def pk(p):
    """comparable view of a packet"""
    if isinstance(p, tuple):
        return p
    return (p.packet_type, p.namespace or '/', p.id, p.data)


def encode_frames(pkt):
    e = pkt.encode()
    return e if isinstance(e, list) else [e]


class SyncDriver:
    """drive a threaded server: all calls are direct"""
    asyncio_ = False

    def __init__(self, chooser=None):
        pass

    def call(self, x):
        return x

    def finish(self):
        pass


class AsyncDriver:
    """drive an asyncio class on miniloop: each API call is run to completion (FIFO unless a
    chooser is given), background tasks are joined by finish()"""
    asyncio_ = True

    def __init__(self, chooser=None, max_steps=600):
        miniloop.install_all()
        self.loop = miniloop.new_loop(chooser, max_steps)

    def call(self, coro):
        if not miniloop.iscoroutine(coro):
            return coro
        t = self.loop.create_task(coro)
        self.loop.run_until(lambda: t.done_)
        return t.result()

    def finish(self):
        self.loop.drain()
