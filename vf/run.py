"""Orchestrator: partitions -> worker processes -> aggregation -> evidence / verdict."""
import argparse
import hashlib
import importlib
import json
import os
import shutil
import subprocess
import sys
import tempfile
import threading
import time
import queue

ROOT = os.path.dirname(os.path.dirname(os.path.abspath(__file__)))
REPO = '/repo'
NCPU = min(16, os.cpu_count() or 4)


# ---------------------------------------------------------------------------------------
def load_known():
    known, fixed = {}, []
    p = os.path.join(ROOT, 'known_findings.txt')
    if os.path.exists(p):
        for line in open(p):
            line = line.strip()
            if not line or line.startswith('#'):
                continue
            head, _, desc = line.partition('::')
            f = head.split()
            kv = dict(x.split('=', 1) for x in f[1:] if '=' in x)
            if f[0] == 'known:':
                known.setdefault(kv['property'], {})[kv['sig']] = desc.strip()
            elif f[0] == 'fixed:':
                fixed.append(line)
    return known, fixed


def props():
    out = {}
    for l in open(os.path.join(ROOT, 'properties.jsonl')):
        p = json.loads(l)
        out[p['id']] = p
    return out


def source_hashes(pid):
    p = props()[pid]
    h = {}
    for f in p['anchors']['files']:
        fp = os.path.join(REPO, f)
        if os.path.exists(fp):
            h[f] = hashlib.sha256(open(fp, 'rb').read()).hexdigest()
    return h


# ---------------------------------------------------------------------------------------
def worker_main(argv):
    """python -m vf.run --worker <module> <check name> <tier> <seed> <parts json> <budget_s> <out>"""
    module, cname, tier, seed, parts_json, budget, out = argv
    parts = json.loads(parts_json)
    mod = importlib.import_module(module)
    check = [c for c in mod.CHECKS if c['name'] == cname][0]
    engine = check.get('engine', 'xh')
    known, _ = load_known()
    ksigs = set(known.get(mod.PROPERTY, {}))
    results = []
    t0 = time.monotonic()
    budget = float(budget)
    for i, part in enumerate(parts):
        left = budget - (time.monotonic() - t0)
        share = max(2.0, left / (len(parts) - i))
        if engine == 'xh':
            from . import xh
            r = xh.explore(check['fn'], part, budget_s=share, per_path_s=check.get('per_path_s', 20.0),
                           known_sigs=ksigs, samples_wanted=check.get('samples', 2),
                           stop_on_violation=not os.environ.get('VERIF_COLLECT'))
        else:
            r = check['run'](part, share, tier, ksigs)
        r['check'] = cname
        results.append(r)
    # which socketio functions did the sampled paths execute (measured on the concrete replays)
    funcs = set()
    if engine == 'xh':
        from . import xh

        def prof(frame, event, arg):
            if event == 'call':
                fn = frame.f_code.co_filename
                if '/socketio/' in fn and '/repo/' in fn:
                    funcs.add('%s:%s' % (os.path.basename(fn), frame.f_code.co_qualname))
        for r in results:
            for s in r['samples'][:2]:
                sys.setprofile(prof)
                try:
                    xh.run_concrete(check['fn'], r['part'], s['tape'])
                finally:
                    sys.setprofile(None)
    for r in results:
        funcs.update(r.pop('functions', []))
    from .tape import tape_to_json
    for r in results:
        for key in ('samples', 'violations', 'known_hits'):
            for s in r.get(key, []):
                if 'tape' in s:
                    s['tape'] = tape_to_json(s['tape'])
    with open(out, 'w') as f:
        json.dump({'results': results, 'functions': sorted(funcs)}, f, default=repr)


def chunk(parts, n):
    n = max(1, n)
    k = (len(parts) + n - 1) // n
    return [parts[i:i + k] for i in range(0, len(parts), k)]


def run_check(pid, tier, seed):
    t_start = time.monotonic()
    module = 'harness.%s' % pid.lower()
    mod = importlib.import_module(module)
    known, fixed = load_known()
    kfor = known.get(pid, {})
    work = tempfile.mkdtemp(prefix='vchk-%s-' % pid)
    jobs = []
    try:
        for check in mod.CHECKS:
            if tier not in check.get('tiers', ('quick', 'thorough')):
                continue
            parts = check['parts'](tier) if callable(check['parts']) else check['parts']
            budget = check['budget'][tier]
            maxw = check.get('max_workers', NCPU)
            for ci, ch in enumerate(chunk(list(parts), maxw * 8)):
                jobs.append((check, ch, budget))
        # the whole property stays within total_s of wall time even if no partition exhausts (budgets are caps)
        total_s = getattr(mod, 'TOTAL_S', {'quick': 420, 'thorough': 900})[tier]
        rounds = -(-len(jobs) // NCPU)
        cap = max(20, total_s // max(1, rounds))
        jobs = [(c, ch, min(b, cap)) for c, ch, b in jobs]
        # schedule: ceil(jobs/NCPU) rounds; budgets are per job
        q = queue.Queue()
        for j in enumerate(jobs):
            q.put(j)
        outs = {}
        errs = []
        timed_out = []
        skipped = []
        stop_early = {'v': False}
        STOP_AT_FIRST = bool(os.environ.get('VERIF_STOP_AT_FIRST'))

        def runner():
            while True:
                try:
                    i, (check, ch, budget) = q.get_nowait()
                except queue.Empty:
                    return
                out = os.path.join(work, 'r%d.json' % i)
                cmd = [sys.executable, '-m', 'vf.run', '--worker', module, check['name'], tier, str(seed),
                       json.dumps(ch), str(budget), out]
                env = dict(os.environ, PYTHONHASHSEED='0',
                           PYTHONPATH=(os.environ['VERIF_SRC'] + ':' if os.environ.get('VERIF_SRC') else '') + ROOT)
                if stop_early['v']:
                    skipped.append((check['name'], ch))
                    continue
                try:
                    proc = subprocess.Popen(cmd, cwd=ROOT, env=env, stdout=subprocess.PIPE, stderr=subprocess.PIPE, text=True)
                    t_end = time.monotonic() + budget * 1.5 + 120
                    while True:
                        try:
                            so, se = proc.communicate(timeout=2)
                            break
                        except subprocess.TimeoutExpired:
                            if stop_early['v'] or time.monotonic() > t_end:
                                proc.kill()
                                proc.communicate()
                                raise
                    if proc.returncode != 0 or not os.path.exists(out):
                        errs.append('worker %s%r rc=%s: %s' % (check['name'], ch[:2], proc.returncode, se[-1500:]))
                    else:
                        outs[i] = json.load(open(out))
                        if STOP_AT_FIRST and any(r.get('violations') for r in outs[i]['results']):
                            stop_early['v'] = True       # (evaluation of seeded changes: one counterexample is enough)
                except subprocess.TimeoutExpired:
                    if stop_early['v']:
                        skipped.append((check['name'], ch))
                    else:
                        # not an error of the harness and not a verdict: these partitions are inconclusive
                        timed_out.append((check['name'], ch))

        ths = [threading.Thread(target=runner) for _ in range(min(NCPU, len(jobs)))]
        for t in ths:
            t.start()
        for t in ths:
            t.join()
    finally:
        shutil.rmtree(work, ignore_errors=True)

    # ---- aggregate ------------------------------------------------------------------------
    agg = dict(confirmed=0, ignored=0, unknown=0, spurious=0, known=0, nontrivial=0, iters=0,
               solver_queries=0, solver_time_s=0.0, cpu_s=0.0, witness_checked=0, witness_ok=0)
    per_check = {}
    violations, known_hits, samples, errors, notes = [], [], [], list(errs), []
    funcs = set()
    n_parts = n_exh = 0
    empty_parts = []          # partitions in which no path reached the oracle (all unknown / out of budget): inconclusive
    for i in sorted(outs):
        funcs.update(outs[i].get('functions', []))
        for r in outs[i]['results']:
            n_parts += 1
            n_exh += 1 if r.get('exhausted_clean', r.get('exhausted')) else 0
            for k in agg:
                agg[k] += r.get(k, 0)
            pc = per_check.setdefault(r['check'], dict(parts=0, exhausted=0, paths=0, nontrivial=0, known=0,
                                                       violations=0, unknown=0))
            pc['parts'] += 1
            pc['exhausted'] += 1 if r.get('exhausted_clean', r.get('exhausted')) else 0
            pc['paths'] += r.get('confirmed', 0)
            pc['nontrivial'] += r.get('nontrivial', 0)
            pc['known'] += r.get('known', 0)
            pc['unknown'] += r.get('unknown', 0) + r.get('spurious', 0)
            pc['violations'] += len(r.get('violations', []))
            if not (r.get('confirmed', 0) or r.get('known', 0) or r.get('violations')):
                empty_parts.append('%s%r' % (r['check'], r['part']))
            for v in r.get('violations', []):
                violations.append(dict(v, check=r['check'], part=r['part']))
            for v in r.get('known_hits', []):
                known_hits.append(dict(v, check=r['check'], part=r['part']))
            for s in r.get('samples', [])[:1]:
                if len(samples) < 8:
                    samples.append(dict(check=r['check'], part=r['part'], tape=s['tape'], notes=s.get('notes')))
            errors.extend('%s%r: %s' % (r['check'], r['part'], e) for e in r.get('errors', [])[:3])
            notes.extend(r.get('notes', [])[:2])

    for cname, ch in timed_out:
        n_parts += len(ch)
        pc = per_check.setdefault(cname, dict(parts=0, exhausted=0, paths=0, nontrivial=0, known=0, violations=0, unknown=0))
        pc['parts'] += len(ch)
        empty_parts.extend('%s%r (worker ran past its time limit)' % (cname, p) for p in ch)

    # ---- verdict --------------------------------------------------------------------------
    os.makedirs(os.path.join(ROOT, 'replays'), exist_ok=True)
    lines = []
    seen = set()
    for kh in known_hits:
        if kh['sig'] in seen:
            continue
        seen.add(kh['sig'])
        lines.append('KNOWN-FINDING: property=%s %s :: %s' % (pid, kh['sig'], kfor.get(kh['sig'], '')))
    vio_lines = []
    seenv = set()
    for v in violations:
        key = (v['check'], v['sig'])
        if key in seenv:
            continue
        seenv.add(key)
        body = dict(property=pid, module=module, check=v['check'], part=v['part'], tape=v['tape'], sig=v['sig'],
                    detail=v['detail'])
        hsh = hashlib.sha1(json.dumps(body, sort_keys=True, default=repr).encode()).hexdigest()[:10]
        path = os.path.join(ROOT, 'replays', '%s-%s.json' % (pid, hsh))
        with open(path, 'w') as f:
            json.dump(body, f, indent=1, default=repr)
        vio_lines.append('VIOLATION property=%s replay=%s' % (pid, path))
        print('  violated: check=%s sig=%s\n  %s' % (v['check'], v['sig'], v['detail'][:1200].replace('\n', '\n  ')))
    witness_ok = agg['witness_ok'] > 0 and all(pc['nontrivial'] > 0 or pc['known'] > 0 or pc['violations'] > 0
                                               for pc in per_check.values())
    harness_error = bool(errs) or (not violations and not witness_ok) or any('does not replay' in e for e in errors)
    wall = time.monotonic() - t_start
    meta = getattr(mod, 'META', {})
    exhaustive = (n_parts > 0 and n_exh == n_parts and not errs)
    ev = {
        'property_id': pid, 'tier': tier, 'seed': seed, 'level': 'other',
        'coverage': {
            'explanation': meta.get('explanation', '') + (
                ' Bounded symbolic execution of the real code objects imported from /repo/src (regenerated from the '
                'working tree by construction); z3 decides every branch on a tape variable and every final '
                'comparison; every counterexample and a sample of confirmed paths are replayed concretely. '
                + ('All partitions exhausted their bounded path space.' if exhaustive else
                   'NOT all partitions were exhausted within the budget: for those this run is bug-hunting only.')),
            'evaluations': agg['confirmed'] + agg['known'] + len(violations),
            'distinct_nontrivial': agg['nontrivial'],
            'rule': 'one evaluation = one feasible execution path of the harness (distinct path condition over the '
                    'tape variables, so distinct by construction); non-trivial = the path drew at least one symbolic '
                    'tape value and reached the oracle comparison (tape.reached)',
            'samples': samples,
            'exhaustive': exhaustive,
            'engine': meta.get('engine', 'xh (CrossHair 0.0.110 path exploration + z3)'),
            'bounds': meta.get('bounds', {}).get(tier, meta.get('bounds')),
            'outside_bounds': meta.get('outside', []),
            'partitions': n_parts, 'partitions_exhausted': n_exh,
            'paths_confirmed': agg['confirmed'], 'paths_ignored': agg['ignored'], 'paths_unknown': agg['unknown'],
            'paths_spurious': agg['spurious'], 'paths_known_finding': agg['known'],
            'per_check': per_check,
            'solver_queries': agg['solver_queries'], 'solver_time_s': round(agg['solver_time_s'], 2),
            'cpu_s': round(agg['cpu_s'], 1),
            'functions_encoded': sorted(funcs),
            'source_sha256': source_hashes(pid),
            'stubs': meta.get('stubs', []),
            'witness_replays_checked': agg['witness_checked'], 'witness_replays_ok': agg['witness_ok'],
            'witness_reached': witness_ok,
            'partitions_without_verdict': empty_parts[:40],
            'known_findings_seen': sorted(seen),
            'errors': errors[:10], 'notes': notes[:6],
        },
        'assumptions': meta.get('assumptions', []),
        'wall_s': round(wall, 2),
        'violations': len(vio_lines),
    }
    evdir = os.environ.get('VERIF_EVIDENCE_DIR') or os.path.join(ROOT, 'evidence')
    os.makedirs(evdir, exist_ok=True)
    with open(os.path.join(evdir, '%s.json' % pid), 'w') as f:
        json.dump(ev, f, indent=1, default=repr)
    for l in lines:
        print(l)
    print('%s tier=%s paths=%d nontrivial=%d known=%d unknown=%d spurious=%d partitions=%d/%d exhausted '
          'queries=%d solver=%.1fs wall=%.1fs' % (pid, tier, agg['confirmed'], agg['nontrivial'], agg['known'],
                                                 agg['unknown'], agg['spurious'], n_exh, n_parts,
                                                 agg['solver_queries'], agg['solver_time_s'], wall))
    for c, pc in per_check.items():
        print('   %-28s %s' % (c, pc))
    for e in empty_parts[:6]:
        print('INCONCLUSIVE partition (no path reached the oracle within the budget): %s' % e[:300])
    for e in errs[:4]:
        print('WORKER-ERROR: %s' % e[-600:])
    if vio_lines:
        for l in vio_lines:
            print(l)
        return 1
    if harness_error:
        print('HARNESS-ERROR property=%s: %s' % (pid, '; '.join(errors[:4]) or 'witness not reached'))
        return 2
    return 0


def replay(path):
    body = json.load(open(path))
    from .tape import tape_from_json
    mod = importlib.import_module(body['module'])
    check = [c for c in mod.CHECKS if c['name'] == body['check']][0]
    if check.get('engine', 'xh') == 'xh':
        from . import xh
        v, t = xh.run_concrete(check['fn'], body['part'], tape_from_json(body['tape']))
    else:
        v = check['replay'](body['part'], body['tape'])
    if v is None:
        print('replay: the recorded case PASSES on this tree')
        return 0
    print('replay: violation reproduces: sig=%s\n%s' % (v.sig, v.detail))
    print('VIOLATION property=%s replay=%s' % (body['property'], path))
    return 1


def main():
    if len(sys.argv) > 1 and sys.argv[1] == '--worker':
        worker_main(sys.argv[2:])
        return 0
    ap = argparse.ArgumentParser()
    sub = ap.add_subparsers(dest='cmd')
    c = sub.add_parser('check')
    c.add_argument('pid')
    c.add_argument('--tier', default=os.environ.get('VERIF_TIER', 'quick'))
    r = sub.add_parser('replay')
    r.add_argument('path')
    a = ap.parse_args()
    if a.cmd == 'replay':
        return replay(a.path)
    seed = int(os.environ.get('VERIF_SEED', '0') or 0)
    return run_check(a.pid.upper(), a.tier, seed)


if __name__ == '__main__':
    sys.exit(main())
