#!/bin/sh
# builds /verif/.venv: a venv of /venv/bin/python overlaying /venv's site-packages, plus
# crosshair-tool (and z3-solver) from the offline wheelhouse. Idempotent.
set -e
cd "$(dirname "$0")"
if [ -x .venv/bin/python ] && .venv/bin/python -c "import crosshair, z3, socketio" 2>/dev/null; then
  exit 0
fi
rm -rf .venv
/venv/bin/python -m venv .venv
echo "import site; site.addsitedir('/venv/lib/python3.12/site-packages')" > .venv/lib/python3.12/site-packages/overlay.pth
PIP_NO_INDEX=1 .venv/bin/pip install -q --no-index --find-links /opt/veriftools/wheels crosshair-tool
.venv/bin/python -c "import crosshair, z3, socketio; print('verif venv ready', z3.get_version_string(), socketio.__file__)"
