"""C19 SimpleClient: events are received once each, in arrival order."""
import socketio
import socketio.simple_client
import socketio.async_simple_client
from socketio import exceptions

from vf import baton, miniloop, worlds
from vf.tape import Fail, notrace

PROPERTY = 'C19'

SCENARIOS = {
    # producer script, consumer calls ('r' = receive(timeout), 'e' = emit), connection state machine included
    'arrivals': (['arrive', 'arrive'], ['r', 'r']),
    'burst-then-receive': (['arrive', 'arrive', 'arrive'], ['r']),
    'loss-and-reconnect': (['arrive', 'loss', 'reconnect', 'arrive'], ['r', 'r']),
    'final-disconnect': (['arrive', 'final'], ['r', 'r']),
    'emit-during-loss': (['loss', 'reconnect'], ['e']),
    'call-during-loss': (['loss', 'reconnect'], ['c']),
    'emit-after-final': (['final'], ['e']),
    'receive-during-loss': (['loss', 'reconnect', 'arrive'], ['r']),
    # the server greets from its own connect handler: the event is dispatched while connect() is still running
    'greeting-during-connect': (['arrive'], ['r', 'r']),
    # 'R' = receive() without a timeout: the connection ends for good while (or before) it waits
    'final-while-blocked': (['arrive', 'final'], ['R', 'R']),
}


class Env:
    """shared bookkeeping of one run"""

    def __init__(self):
        self.completed = []       # events whose arrival (append + set) has completed
        self.final = False
        self.timeout_snaps = []   # (buffer, completed) at the instant a timed wait expired
        self.emitted = []
        self.up = True
        self.greeting = False
        self.greeted = False
        self.no_timeout = False   # the consumer uses receive() without a timeout


class FakeClient:
    last = None
    env = None

    def __init__(self, *a, **kw):
        self.h = {}
        FakeClient.last = self

    def event(self, *a, **kw):
        def deco(f):
            self.h[f.__name__] = f
            return f
        return deco

    def on(self, ev, namespace=None):
        def deco(f):
            self.h[ev] = f
            return f
        return deco

    def connect(self, *a, **kw):
        if FakeClient.env is not None and FakeClient.env.greeting:
            # Client._trigger_event: an event for which no handler is registered (yet) is dropped
            FakeClient.env.greeted = True
            h = self.h.get('*')
            if h is not None:
                h('ev', 0)

    def emit(self, event, data=None, namespace=None):
        if not FakeClient.env.up:
            raise exceptions.BadNamespaceError(namespace)
        FakeClient.env.emitted.append((event, data, namespace))

    def call(self, event, data=None, namespace=None, timeout=60):
        if not FakeClient.env.up:
            raise exceptions.BadNamespaceError(namespace)
        FakeClient.env.emitted.append((event, data, namespace))
        return 'answer'

    def get_sid(self, ns):
        return 'sid'


class AFakeClient(FakeClient):
    async def connect(self, *a, **kw):
        FakeClient.connect(self, *a, **kw)

    async def emit(self, event, data=None, namespace=None):
        await miniloop.sleep(0)
        return FakeClient.emit(self, event, data, namespace)

    async def call(self, event, data=None, namespace=None, timeout=60):
        await miniloop.sleep(0)
        return FakeClient.call(self, event, data, namespace, timeout)


def verdict(env, got, arrivals, buffer_left, stuck, excs, trace):
    if excs:
        return Fail('simple:exception:%s' % type(excs[0]).__name__, repr(excs))
    if stuck:
        return Fail('simple:stuck' + (':receive-without-timeout-after-the-end' if env.final and env.no_timeout else ''),
                    'a thread/task never finished; trace %r' % (trace[-8:],))
    evs = [g for g in got if isinstance(g, list)]
    exp = [['ev', i] for i in range(arrivals)]
    if evs != exp[:len(evs)]:
        return Fail('simple:order-or-duplicate', 'arrivals %r, receive() returned %r' % (exp, evs))
    if list(buffer_left) != exp[len(evs):]:
        return Fail('simple:event-lost', 'returned %r, still buffered %r, arrived %r' % (evs, list(buffer_left), exp))
    for buf, done, which in env.timeout_snaps:
        held = [e for e in buf if e in done]
        if held:
            return Fail('simple:timeout-while-event-available:%s' % which,
                        'the timed %s expired while %r had arrived and was buffered' % (which, held))
    if 'DISCONNECTED' in got and not env.final:
        return Fail('simple:disconnected-error-before-the-end', 'got %r' % (got,))
    return None


# ---- threaded -------------------------------------------------------------------------------------------------------------
def h_threads(t, part):
    prod, cons = SCENARIOS[part['scenario']]
    with notrace():
        env = Env()
        env.no_timeout = 'R' in cons
        FakeClient.env = env
        sched = baton.Sched(lambda n: t.choice(n), max_decisions=part.get('max_decisions', 60))

        class IEvent:
            def __init__(self):
                self.f = False

            def set(self):
                sched.point('ev.set')
                self.f = True

            def clear(self):
                sched.point('ev.clear')
                self.f = False

            def is_set(self):
                return self.f

            def wait(self, timeout=None):
                to = sched.point('ev.wait', blocked=(lambda: self.f, timeout is not None))
                if to:
                    env.timeout_snaps.append((list(buf), list(env.completed),
                                              'connected-wait' if self is c.connected_event else 'input-wait'))
                    return False
                sched.point('ev.wait-returned')
                return self.f

        class IList(list):
            def __bool__(self):
                sched.point('buf.bool')
                return len(self) > 0

            def append(self, x):
                sched.point('buf.append')
                list.append(self, x)

            def pop(self, i=-1):
                sched.point('buf.pop')
                return list.pop(self, i)
        saved = socketio.simple_client.Event
        socketio.simple_client.Event = IEvent
        try:
            c = socketio.SimpleClient()
        finally:
            socketio.simple_client.Event = saved
        c.client_class = FakeClient
        env.greeting = part['scenario'] == 'greeting-during-connect'
        c.connect('http://h')
        fc = FakeClient.last
        buf = IList(c.input_buffer)
        c.input_buffer = buf
        fc.h['connect']()
        got = []
        narr = [1 if env.greeted else 0]
        if env.greeted:
            env.completed.append(['ev', 0])

        def producer():
            for a in prod:
                if a == 'arrive':
                    i = narr[0]
                    narr[0] += 1
                    fc.h['*']('ev', i)
                    env.completed.append(['ev', i])
                elif a == 'loss':
                    fc.h['disconnect']()
                    env.up = False
                elif a == 'reconnect':
                    env.up = True
                    fc.h['connect']()
                elif a == 'final':
                    env.final = True
                    fc.h['disconnect']()
                    fc.h['__disconnect_final']()
                    env.up = False

        def consumer():
            for a in cons:
                try:
                    if a == 'R':
                        got.append(c.receive())
                    elif a == 'r':
                        got.append(c.receive(timeout=1))
                    elif a == 'c':
                        c.call('hello', 1, timeout=1)
                        got.append('EMITTED')
                    else:
                        c.emit('hello', 1)
                        got.append('EMITTED')
                except exceptions.TimeoutError:
                    got.append('TIMEOUT')
                except exceptions.DisconnectedError:
                    got.append('DISCONNECTED')
        sched.spawn(producer, 'producer')
        sched.spawn(consumer, 'consumer')
    if 'pre' in part:
        t.force(part['pre'])
    sched.run()
    with notrace():
        stuck = sched.stuck
        if stuck:
            sched.kill_stuck()
        t.reached('schedule')
        t.note(part['scenario'], 'decisions', sched.decisions)
        if sched.over_budget:
            return Fail('simple:schedule-bound-exceeded', '')
        excs = [w['exc'] for w in sched.ws if w['exc'] is not None]
        r = verdict(env, got, narr[0], list.copy(buf), stuck, excs, sched.trace)
        if r:
            return r
        return check_emit(env, got, cons, prod)


def check_emit(env, got, cons, prod):
    if 'e' in cons or 'c' in cons:
        if 'final' in prod:
            if got != ['DISCONNECTED'] and got != ['EMITTED']:
                return Fail('simple:emit-after-final', repr(got))
            if got == ['EMITTED'] and not env.emitted:
                return Fail('simple:emit-lost', '')
        else:
            if got != ['EMITTED'] or len(env.emitted) != 1:
                return Fail('simple:emit-did-not-wait-out-reconnection', 'emit / call during a temporary loss gave %r, delivered %r' % (
                    got, env.emitted))
    return None


# ---- asyncio ----------------------------------------------------------------------------------------------------------------
def h_async(t, part):
    prod, cons = SCENARIOS[part['scenario']]
    with notrace():
        env = Env()
        env.no_timeout = 'R' in cons
        FakeClient.env = env
        miniloop.install_all()
        loop = miniloop.new_loop(None, 400)
        c = socketio.AsyncSimpleClient()
        c.client_class = AFakeClient
        env.greeting = part['scenario'] == 'greeting-during-connect'
        tk = loop.create_task(c.connect('http://h'))
        loop.run_until(lambda: tk.done_)
        fc = FakeClient.last
        fc.h['connect']()
        got = []
        narr = [1 if env.greeted else 0]
        if env.greeted:
            env.completed.append(['ev', 0])

        async def producer():
            for a in prod:
                if env.no_timeout:
                    # (without timed waits the FIFO loop has a single schedule: here the producer's steps are I/O
                    # completions that the scheduler places wherever it likes)
                    await miniloop.checkpoint('producer step')
                else:
                    await miniloop.sleep(0)
                if a == 'arrive':
                    i = narr[0]
                    narr[0] += 1
                    fc.h['*']('ev', i)
                    env.completed.append(['ev', i])
                elif a == 'loss':
                    fc.h['disconnect']()
                    env.up = False
                elif a == 'reconnect':
                    env.up = True
                    fc.h['connect']()
                elif a == 'final':
                    env.final = True
                    fc.h['disconnect']()
                    fc.h['__disconnect_final']()
                    env.up = False

        async def consumer():
            for a in cons:
                try:
                    if a == 'R':
                        got.append(await c.receive())
                    elif a == 'r':
                        got.append(await c.receive(timeout=1))
                    elif a == 'c':
                        await c.call('hello', 1, timeout=1)
                        got.append('EMITTED')
                    else:
                        await c.emit('hello', 1)
                        got.append('EMITTED')
                except exceptions.TimeoutError:
                    env.timeout_snaps.append((list(c.input_buffer), list(env.completed), 'async-wait'))
                    got.append('TIMEOUT')
                except exceptions.DisconnectedError:
                    got.append('DISCONNECTED')
        t1 = loop.create_task(producer(), 'producer')
        t2 = loop.create_task(consumer(), 'consumer')
    loop.chooser = lambda n: t.choice(n)
    stuck = False
    try:
        loop.drain()
    except miniloop.Deadlock:
        stuck = True
    except miniloop.StepBudget:
        return Fail('simple:schedule-bound-exceeded', '')
    with notrace():
        t.reached('schedule')
        excs = [x.exc for x in (t1, t2) if x.exc is not None]
        r = verdict(env, got, narr[0], list(c.input_buffer), stuck, excs, loop.trace)
        if r:
            return r
        return check_emit(env, got, cons, prod)


def thread_parts(tier):
    out = []
    for sc in SCENARIOS:
        for pre in ([0, 0], [0, 1], [1, 0], [1, 1]):
            out.append({'scenario': sc, 'pre': pre, 'max_decisions': 80 if tier == 'quick' else 120})
    return out


def async_parts(tier):
    return [{'scenario': sc} for sc in SCENARIOS]


# ---- the real Client underneath ------------------------------------------------------------------------------------------
def h_real(t, part):
    """SimpleClient / AsyncSimpleClient on the real Client / AsyncClient (fake engine.io transport, the harness as server):
    the order in which the real client reports 'disconnect' and '__disconnect_final', the catch-all registration and the
    namespace bookkeeping are part of the run. Sequential; the plan is the symbolic input."""
    from harness import c14
    if 'first' in part:
        t.force([part['first']])
    plan = [t.choice(len(c14.SC_OPS)) for _ in range(part['n'])]
    with notrace():
        tr = c14.run_simple(part['async'], plan, live_only=True, reconnection=part.get('reconnection', False))
        t.reached('real-client')
        names = [c14.SC_OPS[o] for o in plan]
        buf, ended = [], False
        if not tr or tr[0] != ('api', 'connect', 'returned', None):
            return Fail('simple:real:connect', repr(tr[:1]))
        for ent in tr[1:]:
            if ent[0] == 'arrived':
                buf.append(ent[1])
            elif ent[0] == 'ended':
                ended = True
            elif ent[0] == 'reconnected':
                buf, ended = [], False          # a new connection starts with an empty buffer
            elif ent[0] == 'api':
                _, tag, how, val = ent
                if tag == 'receive':
                    want = ('returned', buf.pop(0)) if buf else ('raised', 'DisconnectedError' if ended else 'TimeoutError')
                    got = (how, list(val) if how == 'returned' and isinstance(val, (list, tuple)) else val)
                elif tag == 'emit':
                    want = ('raised', 'DisconnectedError') if ended else ('returned', None)
                    got = (how, val)
                elif tag == 'call':
                    want = ('raised', 'DisconnectedError') if ended else ('returned', ['pong', 1])
                    got = (how, list(val) if how == 'returned' and isinstance(val, (list, tuple)) else val)
                elif tag == 'connect':
                    want, got = ('returned', None), (how, val)
                else:       # disconnect()
                    want, got = ('returned', None), (how, val)
                    ended = True
                if got != want:
                    return Fail('simple:real:%s:%s' % (tag, 'after-end' if ended else 'connected'),
                                'plan %r: %s() %s %r, expected %s %r; trace %r' % (names, tag, got[0], got[1], want[0], want[1], tr))
            elif ent[0] == 'contained' and ent[1]:
                return Fail('simple:real:exception', 'plan %r: %r' % (names, ent[1]))
    return None


def real_parts(tier):
    from harness import c14
    n = 4 if tier == 'quick' else 5
    out = [{'async': a, 'n': n, 'first': f} for a in (False, True) for f in range(len(c14.SC_OPS))]
    # with reconnection enabled (the default): an intended end must still be reported as final
    out += [{'async': a, 'n': n - 1, 'first': f, 'reconnection': True} for a in (False, True) for f in range(len(c14.SC_OPS))]
    return out


CHECKS = [
    dict(name='threads', fn=h_threads, parts=thread_parts, budget={'quick': 80, 'thorough': 900}, per_path_s=30),
    dict(name='asyncio', fn=h_async, parts=async_parts, budget={'quick': 120, 'thorough': 300}, per_path_s=30),
    dict(name='real-client', fn=h_real, parts=real_parts, budget={'quick': 120, 'thorough': 300}, per_path_s=30),
]

META = dict(
    explanation='Real SimpleClient.receive()/emit() on real threads under the baton scheduler: the handlers that connect() '
                'registers are driven by a producer thread (arrivals = append, then set; loss; reconnection; final '
                'disconnect), the application is a consumer thread; pre-emption before every event and buffer operation '
                'and right after a wait returns; a timed wait may expire only while its flag is unset. Real '
                'AsyncSimpleClient on miniloop with every await-point interleaving. The schedule is the only symbolic '
                'input: systematic schedule enumeration driven by the solver (low solver leverage, stated). real-client: the '
                'simple clients on the real Client/AsyncClient over a fake engine.io transport, sequential plans of 4 (thorough 5) '
                'operations from {emit, call answered, one / two events arrive, receive, receive that times out, the server '
                'ends the namespace, disconnect()}, checked against a reference model (buffered events first and in order, '
                'then TimeoutError while connected and DisconnectedError once the connection has ended for good).',
    bounds={'quick': 'ten scenarios (receive() without a timeout while / before the connection ends for good; call during a temporary loss; two arrivals || two receives; a greeting dispatched while connect() is still running; burst of three; loss and reconnection between arrivals; '
                     'final disconnect; emit during a temporary loss; emit after the end; receive during a loss); all '
                     'schedules at the granularity of event/buffer operations (decision bound 80)',
            'thorough': 'decision bound 120'},
    outside=['liveness other than: a receive() without timeout returns or raises once the connection has ended for good',
             'CPython-level pre-emption inside list/event operations'],
    stubs=['the underlying Client -> a fake capturing the handlers the real connect() registers', 'threading.Event -> '
           'instrumented event', 'input_buffer -> instrumented list', 'asyncio -> vf.miniloop'],
    assumptions=['each event/buffer operation is atomic'],
)
