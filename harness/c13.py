"""C13 Handler resolution follows the documented precedence on server and client."""
import socketio

from vf import worlds, miniloop
from vf.tape import Fail, notrace

PROPERTY = 'C13'

CLASSES = ['Server', 'AsyncServer', 'Client', 'AsyncClient']
# event palette: ordinary, ordinary identifier-like, reserved ones
EVENTS = ['ev', 'connect', 'disconnect', 'connect_error', 'message']
# '*' as the *name* of an incoming event / of the namespace it arrives on (the peer chooses both): it is an ordinary name
# there, not a registration, so only catch-all targets can match and they get it prepended like any other name
STAR = '*'


def ref_resolve(table, nstable, reserved, event, ns, args):
    """Spec-derived resolution (property text). table[(namespace, event)] -> tag,
    nstable[namespace] -> tag. Returns (tag, args) or (None, None)."""
    if ns != STAR and event != STAR and (ns, event) in table:
        return table[(ns, event)], args
    if ns != STAR and event not in reserved and (ns, '*') in table:
        return table[(ns, '*')], (event,) + args
    if event != STAR and ('*', event) in table:
        return table[('*', event)], (ns,) + args
    if event not in reserved and ('*', '*') in table:
        return table[('*', '*')], (event, ns) + args
    if ns != STAR and ns in nstable:
        return nstable[ns], args
    if '*' in nstable:
        return nstable['*'], (ns,) + args
    return None, None


def h(t, part):
    cname = part['cls']
    event = part['ev']
    is_async = cname.startswith('Async')
    is_server = 'Server' in cname
    calls = []
    reserved = ['connect', 'disconnect'] if is_server else ['connect', 'connect_error', 'disconnect']
    ns = part['ns'] if 'ns' in part else t.pick(['/', '/a'])
    bits = [t.bool() for _ in range(6)]
    unrelated = t.bool()
    coro_handlers = t.bool() if is_async else False
    ns_spelling = t.choice(3) if (bits[4] and ns == '/' and event != STAR) else 0
    args = (t.int(-3, 3),)
    if t.bool():
        args = args + (t.str(2),)
    if is_server:
        args = ('SID',) + args
    if part.get('legacy'):
        args = args + ('REASON',)

    legacy = part.get('legacy', False)      # disconnect handlers written without the reason argument

    def target(tag):
        if legacy:
            # accepts exactly one argument less than it is first called with (TypeError, then the documented retry)
            def f(*a):
                if a and a[-1] == 'REASON':
                    raise TypeError('takes %d positional arguments' % (len(a) - 1))
                calls.append((tag, a + ('REASON',)))
                return 'ret-' + tag
            if coro_handlers:
                async def g(*a):
                    return f(*a)
                return g
            return f
        if coro_handlers:
            async def f(*a):
                calls.append((tag, a))
                return 'ret-' + tag
        else:
            def f(*a):
                calls.append((tag, a))
                return 'ret-' + tag
        return f

    def mkns(tag, nsname, nsbase):
        meth = {}
        for e in EVENTS:
            def mk(e):
                if coro_handlers:
                    async def m(self, *a):
                        calls.append((tag + ':on_' + e, a))
                        return 'ret-' + tag
                else:
                    def m(self, *a):
                        calls.append((tag + ':on_' + e, a))
                        return 'ret-' + tag
                return m
            meth['on_' + e] = mk(e)
        common = type('Common', (nsbase,), meth)        # handlers live one level up (Chat(Common(Namespace)))
        return type('NS', (common,), {})(nsname)

    with notrace():
        drv = worlds.AsyncDriver() if is_async else worlds.SyncDriver()
        if is_server:
            obj, eio, P = worlds.make_server(is_async)
            nsbase = socketio.AsyncNamespace if is_async else socketio.Namespace
        else:
            obj, eio, P = worlds.make_client(is_async)
            nsbase = socketio.AsyncClientNamespace if is_async else socketio.ClientNamespace
        table, nstable = {}, {}
        keys = [(ns, event), (ns, '*'), ('*', event), ('*', '*')]
        for i, key in enumerate(keys):
            if (event == STAR and i in (0, 2)) or (ns == STAR and i in (0, 1)):
                continue            # a name that is '*' cannot be registered for specifically
            if bits[i]:
                tag = 'fn%d' % i
                table[key] = tag
                obj.on(key[1], target(tag), namespace=key[0])
        if unrelated:
            table[(ns, 'other')] = 'other'
            obj.on('other', target('other'), namespace=ns)
        if bits[4] and ns != STAR and event != STAR:
            nstable[ns] = 'cls'
            # the default namespace may be written '/', '' or left out when the object is built
            obj.register_namespace(mkns('cls', [ns, '', None][ns_spelling] if ns == '/' else ns, nsbase))
        if bits[5] and event != STAR:
            nstable['*'] = 'clsstar'
            obj.register_namespace(mkns('clsstar', '*', nsbase))

    def once(phase):
        del calls[:]
        ret = drv.call(obj._trigger_event(event, ns, *args))
        drv.finish()
        exp_tag, exp_args = ref_resolve(table, nstable, reserved, event, ns, args)
        t.reached('resolved')
        t.note(cname, event, ns, bits, unrelated, exp_tag, phase)
        pre = 'resolve:%s%s' % (cname, phase)
        if exp_tag is None:
            if calls:
                return Fail(pre + ':ran-without-target', 'calls=%r' % calls)
            if is_server and ret is not obj.not_handled:
                return Fail(pre + ':no-target-not-reported', 'ret=%r' % (ret,))
            return None
        if exp_tag in ('cls', 'clsstar'):
            exp_name = exp_tag + ':on_' + event
        else:
            exp_name = exp_tag
        if len(calls) != 1:
            return Fail(pre + ':expected=%s:ncalls=%d:unrelated=%d' % (exp_tag, len(calls), unrelated),
                        'event=%r ns=%r bits=%r calls=%r' % (event, ns, bits, calls))
        if calls[0][0] != exp_name:
            return Fail(pre + ':expected=%s:got=%s' % (exp_tag, calls[0][0]),
                        'event=%r ns=%r bits=%r' % (event, ns, bits))
        if not (calls[0][1] == exp_args):
            return Fail(pre + ':args', 'expected %r got %r' % (exp_args, calls[0][1]))
        if not (ret == 'ret-' + exp_tag):
            return Fail(pre + ':return', 'ret=%r' % (ret,))
        return None

    r = once('')
    if r or 'late' not in part:
        return r
    # a registration made after events have flowed (a handler added or replaced at run time) counts from the next event on
    i = part['late']
    key = keys[i]
    if (event == STAR and i in (0, 2)) or (ns == STAR and i in (0, 1)):
        return None
    with notrace():
        table[key] = 'late%d' % i
        obj.on(key[1], target('late%d' % i), namespace=key[0])
    return once(':after-late-registration')


def parts(tier):
    out = []
    for c in CLASSES:
        for e in EVENTS:
            if e == 'connect_error' and 'Server' in c:
                continue
            out.append({'cls': c, 'ev': e})
        out.append({'cls': c, 'ev': 'disconnect', 'legacy': True})
        out.append({'cls': c, 'ev': STAR})                       # the peer names its event '*'
        out.append({'cls': c, 'ev': 'ev', 'ns': STAR})          # ... or the namespace
        for i in range(4):
            out.append({'cls': c, 'ev': 'ev', 'late': i})       # the event again after one more registration
    return out


CHECKS = [dict(name='resolve', fn=h, parts=parts, budget={'quick': 180, 'thorough': 240}, per_path_s=15)]

META = dict(
    explanation='Real _trigger_event of Server/AsyncServer/Client/AsyncClient and real trigger_event of the four '
                'namespace classes, against a six-step reference resolution written from the property text.',
    bounds={'quick': 'all 2^6 presence combinations x unrelated-handler bit x namespace in {/,/a} x event in '
                     '{ev,message,connect,disconnect,connect_error} x sync/coroutine targets x arguments (symbolic int -3..3, optional '
                     'symbolic str len<=2); for event ev: the same event once more after a handler was added or replaced at one of the four function-handler keys',
            'thorough': 'same (the space is exhausted in the quick tier already)'},
    outside=['event and namespace names outside the palette (which includes the name "*" for either)', 'legacy handlers other than function handlers for disconnect', 'class namespaces lacking the on_<event> method'],
    stubs=['engine.io server/client replaced by vf.stubs fakes (not exercised here)', 'asyncio -> vf.miniloop (FIFO)',
           'logging -> null logger'],
    assumptions=['event and namespace names are drawn from a concrete palette; arguments are symbolic leaves'],
)
