"""C14 The asyncio classes behave exactly like their threaded counterparts."""
import json
import pickle

import socketio
from socketio import packet, exceptions

from vf import worlds, stubs
from vf.tape import Fail, notrace
from harness import c15

PROPERTY = 'C14'


class Boom(RuntimeError):
    pass


def exc_name(e):
    return type(e).__name__


# ---- servers ---------------------------------------------------------------------------------------------------------
S_OPS = ['connect /', 'connect /a auth', 'connect unserved', 'connect refused', 'event', 'event+id', 'binary event+id',
         'event unknown', 'ack known', 'ack unknown', 'ack duplicate', 'client disconnect', 'malformed', 'stray binary',
         'emit room', 'emit sid callback', 'emit sid raising-callback', 'enter', 'leave', 'close', 'server disconnect',
         'session', 'loss e1', 'event on class namespace', 'call', 'emit room callback skip', 'emit unserialisable',
         'emit unserialisable callback', 'session in place']


def run_server(asyncio_, plan, classns):
    w = worlds.SWorld(asyncio_, async_handlers=False)
    tr = []

    def handler(tag, ret=None, refuse=False):
        def body(*a):
            tr.append((tag,) + a)
            if refuse:
                raise exceptions.ConnectionRefusedError('no', 1)
            if tag.startswith('ev') and len(a) == 1:
                return 0                # an event without arguments is answered with a falsy value that is not None
            return ret
        if asyncio_:
            async def f(*a):
                return body(*a)
        else:
            def f(*a):
                return body(*a)
        return f
    def disconnect_handler(ns):
        mode = classns if isinstance(classns, str) else None
        def body(sid, reason):
            tr.append(('disconnect' + ns, sid, reason))
            if mode == 'raising-disconnect':
                raise Boom('disconnect handler')
        if asyncio_:
            async def f(sid, reason):
                body(sid, reason)
                if mode == 'emitting-disconnect':
                    await w.s.emit('left', sid, namespace=ns)
        else:
            def f(sid, reason):
                body(sid, reason)
                if mode == 'emitting-disconnect':
                    w.s.emit('left', sid, namespace=ns)
        return f
    for ns in ('/', '/a'):
        w.s.on('connect', handler('connect' + ns), namespace=ns)
        w.s.on('disconnect', disconnect_handler(ns), namespace=ns)
        w.s.on('ev', handler('ev' + ns, ('r', 1)), namespace=ns)
    w.s.on('connect', handler('connect/r', refuse=True), namespace='/r')
    if classns is True:
        base = socketio.AsyncNamespace if asyncio_ else socketio.Namespace
        if asyncio_:
            async def on_ev(self, sid, *a):
                tr.append(('cls-ev', sid) + a)
                return await self.rooms(sid) if False else sorted(self.rooms(sid))
        else:
            def on_ev(self, sid, *a):
                tr.append(('cls-ev', sid) + a)
                return sorted(self.rooms(sid))

        def on_connect(self, sid, environ):
            tr.append(('cls-connect', sid))
        w.s.register_namespace(type('N', (base,), {'on_ev': on_ev, 'on_connect': on_connect})('/c'))
    for e in ('e0', 'e1'):
        w.open(e)
    s1 = w.connect('e1', '/')
    w.call(w.s.enter_room(s1, 'room'))
    w.connect('e0', '/')            # e0 starts connected to the default namespace (a further 'connect /' is a repeat)
    cb_ids = {}

    def api(tag, thunk):
        try:
            r = w.call(thunk())
            tr.append(('api', tag, 'returned', r if not hasattr(r, '__enter__') else 'ctx'))
        except Exception as e:
            tr.append(('api', tag, 'raised', exc_name(e)))

    def cb(raising):
        def f(*a):
            tr.append(('callback',) + a)
            if raising:
                raise Boom('cb')
        if asyncio_ and raising == 'coro':
            async def g(*a):
                return f(*a)
            return g
        return f
    for op in plan:
        name = S_OPS[op]
        s0 = w.sid('e0', '/')
        if name == 'connect /':
            w.send('e0', w.P(packet.CONNECT, namespace='/'))
        elif name == 'connect /a auth':
            w.send('e0', w.P(packet.CONNECT, data={'t': 1}, namespace='/a'))
        elif name == 'connect unserved':
            w.send('e0', w.P(packet.CONNECT, namespace='/zz'))
        elif name == 'connect refused':
            w.send('e0', w.P(packet.CONNECT, namespace='/r'))
        elif name == 'event':
            w.send('e0', w.P(packet.EVENT, data=['ev', 1, 'x']))
        elif name == 'event+id':
            w.send('e0', w.P(packet.EVENT, data=['ev'], id=0))
        elif name == 'binary event+id':
            w.send('e0', w.P(packet.EVENT, data=['ev', b'b', {'k': b'c'}], id=4))
        elif name == 'event unknown':
            w.send('e0', w.P(packet.EVENT, data=['nobody', 1], id=5))
        elif name in ('ack known', 'ack duplicate'):
            for i in sorted(cb_ids):
                w.send('e0', w.P(packet.ACK, data=['a', i], id=i))
                if name == 'ack duplicate':
                    w.send('e0', w.P(packet.ACK, data=['again', i], id=i))
        elif name == 'ack unknown':
            w.send('e0', w.P(packet.ACK, data=[1], id=77))
        elif name == 'client disconnect':
            w.send('e0', w.P(packet.DISCONNECT))
        elif name == 'malformed':
            for f in ('x', '9', '2[', '51-'):
                w.recv('e0', f)
        elif name == 'stray binary':
            w.recv('e0', b'stray')
        elif name == 'emit room':
            api('emit', lambda: w.s.emit('news', (1, b'two'), room='room', skip_sid=None))
        elif name in ('emit sid callback', 'emit sid raising-callback'):
            if s0:
                api('emit-cb', lambda: w.s.emit('q', {'a': 1}, to=s0, callback=cb(name.endswith('raising-callback'))))
                for p in worlds.decode_frames(w.P, w.frames('e0')):
                    if not isinstance(p, tuple) and p.packet_type == packet.EVENT and p.id is not None:
                        cb_ids[p.id] = True
        elif name == 'emit unserialisable':
            api('emit-bad', lambda: w.s.emit('news', {'ids': {1, 2}}, room='room'))
        elif name == 'emit unserialisable callback':
            if s0:
                api('emit-bad-cb', lambda: w.s.emit('q', {'ids': {1, 2}}, to=s0, callback=cb(False)))
        elif name == 'enter':
            if s0:
                api('enter', lambda: w.s.enter_room(s0, 'room'))
        elif name == 'leave':
            api('leave', lambda: w.s.leave_room(s0 or 'nobody', 'room'))
        elif name == 'close':
            api('close', lambda: w.s.close_room('room'))
        elif name == 'server disconnect':
            api('disconnect', lambda: w.s.disconnect(s0 or 'nobody'))
        elif name == 'session':
            if s0:
                api('save', lambda: w.s.save_session(s0, {'u': 1}))
                api('get', lambda: w.s.get_session(s0))
        elif name == 'session in place':
            if s0:
                # the dictionary handed out is the stored one: what is put into it without save_session() is read back
                sess = w.call(w.s.get_session(s0))
                sess['visits'] = sess.get('visits', 0) + 1
                api('get', lambda: w.s.get_session(s0))
        elif name == 'loss e1':
            w.lose('e1', 'transport close')
        elif name == 'event on class namespace':
            if classns is True:
                w.send('e0', w.P(packet.CONNECT, namespace='/c'))
                w.send('e0', w.P(packet.EVENT, data=['ev', 2], namespace='/c', id=9))
        elif name == 'call':
            api('call', lambda: w.s.call('q', 1, to=s0 or 'nobody', timeout=1))
        elif name == 'emit room callback skip':
            # (callbacks on group emits are unsupported, but both implementations must still do the same thing)
            api('emit-room-cb', lambda: w.s.emit('q2', 1, room='room', skip_sid=s0, callback=cb(False)))
    w.finish()
    tr.append(('contained', [exc_name(c[1]) for c in w.eio.contained]))
    for e in ('e0', 'e1'):
        tr.append((e, [worlds.pk(p) for p in worlds.decode_frames(w.P, w.frames(e))]))
    tr.append(('rooms', {ns: sorted((str(r), sorted(m)) for r, m in
                                   ((room, list(bd.keys())) for room, bd in rs.items())) for ns, rs in w.s.manager.rooms.items()}))
    return tr


def h_server(t, part):
    if 'first' in part:
        t.force([part['first']])
    plan = [t.choice(len(S_OPS)) for _ in range(part['n'])]
    classns = part['classns']
    with notrace():
        from vf import waithook
        waithook.HOOK[0] = None
        a = run_server(False, plan, classns)
        b = run_server(True, plan, classns)
    t.reached('pair')
    t.note([S_OPS[o] for o in plan])
    return compare(a, b, 'server', [S_OPS[o] for o in plan])


def compare(a, b, what, plan):
    if len(a) != len(b):
        return Fail('equiv:%s:trace-length' % what, 'plan %r\nthreaded %r\nasyncio  %r' % (plan, a, b))
    for x, y in zip(a, b):
        if x != y:
            key = x[0] if isinstance(x, tuple) and isinstance(x[0], str) else 'entry'
            return Fail('equiv:%s:%s' % (what, key), 'plan %r\nthreaded %r\nasyncio  %r' % (plan, x, y))
    return None


# ---- clients ------------------------------------------------------------------------------------------------------------
C_OPS = ['srv event', 'srv event+id', 'srv binary event+id', 'srv event nobody+id', 'srv ack known', 'srv ack unknown',
         'srv ack duplicate', 'srv disconnect /', 'srv disconnect /a', 'srv connect_error /a', 'emit', 'emit cb',
         'emit raising-cb', 'emit unconnected', 'send', 'disconnect()', 'loss', 'server close', 'malformed', 'stray binary',
         'srv half binary', 'reconnect', 'connect refused by HTTP status', 'connect unreachable',
         'connect and wait: more confirmed than asked']


def run_client(asyncio_, plan):
    w = worlds.CWorld(asyncio_)
    tr = []

    def handler(tag, ret=None):
        def body(*a):
            tr.append((tag,) + a)
            if tag.startswith('ev') and len(a) == 0:
                return 0                # an event without arguments is answered with a falsy value that is not None
            return ret
        if asyncio_:
            async def f(*a):
                return body(*a)
        else:
            def f(*a):
                return body(*a)
        return f
    for ns in ('/', '/a'):
        for ev in ('connect', 'disconnect', 'connect_error'):
            w.c.on(ev, handler(ev + ns), namespace=ns)
        w.c.on('ev', handler('ev' + ns, ('r', 0)), namespace=ns)
    calls_to_auth = []

    def auth():
        calls_to_auth.append(1)
        return {'token': len(calls_to_auth)}
    w.connect(['/', '/a'], auth=auth)
    ids = {}

    class World:
        outcome = None

        def connect_outcome(self, c):
            return self.outcome
    world = World()
    w.eio.world = world

    def api(tag, thunk):
        try:
            r = w.call(thunk())
            tr.append(('api', tag, 'returned', r))
        except Exception as e:
            tr.append(('api', tag, 'raised', exc_name(e)))

    def cb(raising):
        def f(*a):
            tr.append(('callback',) + a)
            if raising:
                raise Boom('cb')
        return f
    for op in plan:
        name = C_OPS[op]
        if name == 'srv event':
            w.send(w.P(packet.EVENT, data=['ev', 1, 'x'], namespace='/a'))
        elif name == 'srv event+id':
            w.send(w.P(packet.EVENT, data=['ev'], id=0))
        elif name == 'srv binary event+id':
            w.send(w.P(packet.EVENT, data=['ev', b'b', [b'c']], id=3))
        elif name == 'srv event nobody+id':
            w.send(w.P(packet.EVENT, data=['nobody'], id=6))
        elif name in ('srv ack known', 'srv ack duplicate'):
            for (ns, i) in sorted(ids):
                w.send(w.P(packet.ACK, data=['a', i], namespace=ns, id=i))
                if name == 'srv ack duplicate':
                    w.send(w.P(packet.ACK, data=['again'], namespace=ns, id=i))
        elif name == 'srv ack unknown':
            w.send(w.P(packet.ACK, data=[1], id=77))
        elif name == 'srv disconnect /':
            w.send(w.P(packet.DISCONNECT, namespace='/'))
        elif name == 'srv disconnect /a':
            w.send(w.P(packet.DISCONNECT, namespace='/a'))
        elif name == 'srv connect_error /a':
            w.send(w.P(packet.CONNECT_ERROR, data={'message': 'no', 'data': [1]}, namespace='/a'))
        elif name in ('emit', 'emit cb', 'emit raising-cb', 'emit unconnected', 'send'):
            n0 = len(w.eio.out)
            if name == 'emit':
                api('emit', lambda: w.c.emit('up', (1, b'two')))
            elif name == 'emit unconnected':
                api('emit', lambda: w.c.emit('up', 1, namespace='/zz'))
            elif name == 'send':
                api('send', lambda: w.c.send({'k': None}, namespace='/a'))
            else:
                api('emit-cb', lambda: w.c.emit('up', 1, namespace='/a', callback=cb(name == 'emit raising-cb')))
            for p in worlds.decode_frames(w.P, [f for f in w.eio.out[n0:] if not isinstance(f, tuple)]):
                if not isinstance(p, tuple) and p.packet_type == packet.EVENT and p.id is not None:
                    ids[(p.namespace or '/', p.id)] = True
        elif name == 'disconnect()':
            api('disconnect', lambda: w.c.disconnect())
        elif name == 'loss':
            w.call(w.eio.lose())
        elif name == 'server close':
            w.call(w.eio.server_close())
        elif name == 'malformed':
            for f in ('x', '9', '2['):
                w.recv(f)
        elif name == 'stray binary':
            w.recv(b'stray')
        elif name == 'srv half binary':
            fr = worlds.encode_frames(w.P(packet.EVENT, data=['ev', b'one', b'two'], namespace='/a'))
            w.recv(fr[0])
            w.recv(fr[1])
        elif name == 'reconnect':
            if w.eio.state == 'disconnected':
                api('connect', lambda: w.c.connect('http://h', namespaces=['/', '/a'], wait=False))
                for ns in ('/', '/a'):
                    w.accept(ns)
        elif name.startswith('connect and wait'):
            if w.eio.state == 'disconnected':
                # connect(wait=True): the server's answers arrive while connect() waits. Either it confirms a namespace
                # that was not asked for besides the one that was, or it refuses one of the two that were asked for
                extra = 'more confirmed' in name
                n0 = [len(w.eio.out)]

                def answers():
                    out = []
                    new = [f for f in w.eio.out[n0[0]:] if not isinstance(f, tuple)]
                    n0[0] = len(w.eio.out)
                    for p in worlds.decode_frames(w.P, new):
                        if isinstance(p, tuple) or p.packet_type != packet.CONNECT:
                            continue
                        ns = p.namespace or '/'
                        if extra:
                            out.append(w.P(packet.CONNECT, data={'sid': 'x' + ns}, namespace=ns))
                            out.append(w.P(packet.CONNECT, data={'sid': 'unasked'}, namespace='/'))
                        elif ns == '/':
                            out.append(w.P(packet.CONNECT, data={'sid': 'x' + ns}, namespace=ns))
                        else:
                            out.append(w.P(packet.CONNECT_ERROR, data={'message': 'no'}, namespace=ns))
                    return [worlds.encode_frames(p)[0] for p in out]
                if asyncio_:
                    from vf import miniloop

                    async def server():
                        await miniloop._Suspend('cond', lambda: len(w.eio.out) > n0[0], None, 'server idle')
                        for fr in answers():
                            await w.eio.recv(fr)
                    miniloop.create_task(server(), 'server')
                else:
                    from vf import waithook

                    def hook(event, timeout):
                        for fr in answers():
                            w.eio.recv(fr)
                    waithook.HOOK[0] = hook
                try:
                    api('connect', lambda: w.c.connect('http://h', namespaces=['/a'] if extra else ['/', '/a'], wait=True,
                                                       wait_timeout=1))
                finally:
                    if not asyncio_:
                        waithook.HOOK[0] = None
        elif name in ('connect refused by HTTP status', 'connect unreachable'):
            if w.eio.state == 'disconnected':
                # engine.io raises ConnectionError(message) when the server cannot be reached and
                # ConnectionError(message, body) when the handshake is answered with an error status (client.py:163-175)
                import engineio.exceptions
                args = ('Connection error',) if name == 'connect unreachable' else ('Unexpected status code 401', {'message': 'denied'})
                world.outcome = engineio.exceptions.ConnectionError(*args)
                api('connect', lambda: w.c.connect('http://h', namespaces=['/', '/a'], wait=False))
                world.outcome = None
    w.finish()
    tr.append(('contained', [exc_name(c[1]) for c in w.eio.contained]))
    tr.append(('out', [worlds.pk(p) if not isinstance(p, tuple) else p for p in
                       worlds.decode_frames(w.P, [f for f in w.eio.out if not isinstance(f, tuple)])]))
    tr.append(('state', w.c.connected, sorted(w.c.namespaces), w.eio.state, sorted(w.c.callbacks)))
    return tr


def h_client(t, part):
    if 'first' in part:
        t.force([part['first']])
    plan = [t.choice(len(C_OPS)) for _ in range(part['n'])]
    with notrace():
        a = run_client(False, plan)
        b = run_client(True, plan)
    t.reached('pair')
    return compare(a, b, 'client', [C_OPS[o] for o in plan])


# ---- pub/sub managers: the same channel contents through both listeners -----------------------------------------------------
def run_pubsub(asyncio_, plan):
    m = c15.make_manager(asyncio_)
    m.host_id = 'fixed-host-id'
    w = worlds.SWorld(asyncio_, client_manager=m, async_handlers=False)
    w.eio.bg_inline = False
    if asyncio_:
        async def oc(sid, environ):
            return None
        w.eio.start_background_task = lambda target, *a, **kw: None
    else:
        def oc(sid, environ):
            return None
    w.s.on('connect', oc)
    w.open('e0')
    sid = w.connect('e0', '/')
    tr = []
    w.call(w.s.emit('q', 1, to=sid, callback=lambda *a: tr.append(('callback',) + a)))
    app_ids = sorted(i for i, f in m.callbacks.get(sid, {}).items() if getattr(f, '__name__', '') == '<lambda>')
    other = 'another-host'
    for kind, enc, v in plan:
        msgs = {
            'emit': {'method': 'emit', 'event': 'e', 'data': (1, 'x') if v % 2 else {'d': v}, 'namespace': '/',
                     'room': sid if v > 1 else None, 'skip_sid': None, 'callback': None, 'host_id': other},
            'emit-remote-callback': {'method': 'emit', 'event': 'e', 'data': 1, 'namespace': '/', 'room': sid, 'skip_sid': None,
                                     'callback': (sid, '/', 9), 'host_id': other},
            'enter': {'method': 'enter_room', 'sid': sid, 'namespace': '/', 'room': 'lobby', 'host_id': other},
            'leave': {'method': 'leave_room', 'sid': sid, 'namespace': '/', 'room': 'lobby', 'host_id': other},
            'close': {'method': 'close_room', 'namespace': '/', 'room': 'lobby', 'host_id': other},
            'disconnect': {'method': 'disconnect', 'sid': sid, 'namespace': '/', 'host_id': other},
            'callback': {'method': 'callback', 'host_id': m.host_id, 'sid': sid, 'namespace': '/', 'id': app_ids[0] if app_ids else 1,
                         'args': ['x', v]},
            'echo': {'method': 'emit', 'event': 'echo', 'data': 1, 'namespace': '/', 'room': None, 'skip_sid': None,
                     'callback': None, 'host_id': m.host_id},
            'junk': {'method': 'nope', 'host_id': other},
        }
        m.chan.append(c15.encode(msgs[kind], enc))
    w.call(m._thread())
    w.finish()
    # the client answers whatever carries an id (relayed callbacks travel back over the channel)
    for p in worlds.decode_frames(w.P, w.frames('e0')):
        if not isinstance(p, tuple) and p.packet_type == packet.EVENT and p.id is not None and p.data[0] == 'e':
            w.send('e0', w.P(packet.ACK, data=['ok'], id=p.id))
    tr.append(('packets', [worlds.pk(p) for p in worlds.decode_frames(w.P, w.frames('e0'))]))
    tr.append(('published', m.published))
    tr.append(('rooms', sorted(map(str, w.s.rooms(sid))), w.s.manager.is_connected(sid, '/')))
    tr.append(('read', m.cursor, len(m.chan)))
    return tr


P_KINDS = ['emit', 'emit-remote-callback', 'enter', 'leave', 'close', 'disconnect', 'callback', 'echo', 'junk']


def h_pubsub(t, part):
    if 'first' in part:
        t.force([part['first']])
    plan = []
    for k in range(part['n']):
        if k == 0 or part.get('full'):
            plan.append((P_KINDS[t.choice(len(P_KINDS))], c15.ENCODINGS[t.choice(4)], t.choice(4)))
        else:
            plan.append((P_KINDS[t.choice(len(P_KINDS))], c15.ENCODINGS[1 + t.choice(2)], t.choice(2)))
    with notrace():
        a = run_pubsub(False, plan)
        b = run_pubsub(True, plan)
    t.reached('pair')
    return compare(a, b, 'pubsub', plan)


# ---- simple clients -------------------------------------------------------------------------------------------------------
SC_OPS = ['emit', 'call+ack', 'event arrives', 'two events arrive', 'receive', 'receive timeout', 'server ends', 'disconnect',
          'server closes the transport', 'message arrives', 'connect again']


def run_simple(asyncio_, plan, live_only=False, reconnection=False):
    """live_only (used by C19's absolute oracle): nothing arrives once the connection has ended, and the trace carries
    ('arrived', event) / ('ended',) markers for the reference model"""
    ended = [False]
    user_disconnected = [False]
    drv = worlds.AsyncDriver(None, 3000) if asyncio_ else worlds.SyncDriver()
    P = worlds.inj_packet_class()
    holder = {}

    def factory(*a, **kw):
        kw.update(logger=stubs.NULL_LOGGER, serializer=P, handle_sigint=False, reconnection=reconnection)
        c = (worlds.HAClient if asyncio_ else worlds.HClient)(*a, **kw)
        holder['c'] = c
        return c
    import socketio.simple_client
    from vf import waithook as _wh
    saved_event = socketio.simple_client.Event
    socketio.simple_client.Event = _wh.HookEvent       # threading.Event -> hook event (no real blocking)
    try:
        sc = (socketio.AsyncSimpleClient if asyncio_ else socketio.SimpleClient)()
    finally:
        socketio.simple_client.Event = saved_event
    sc.client_class = factory
    tr = []
    from vf import waithook

    def serve():
        c = holder.get('c')
        if c is None:
            return
        out = c.eio.out
        pos = holder.get('pos', 0)
        holder['pos'] = len(out)
        for p in worlds.decode_frames(P, [f for f in out[pos:] if not isinstance(f, tuple)]):
            if isinstance(p, tuple):
                continue
            if p.packet_type == packet.CONNECT:
                drv.call(c.eio.recv(worlds.encode_frames(P(packet.CONNECT, data={'sid': 's'}, namespace=p.namespace))[0]))
            elif p.packet_type == packet.EVENT and p.id is not None and holder.get('ack'):
                drv.call(c.eio.recv(worlds.encode_frames(P(packet.ACK, data=['pong', 1], namespace=p.namespace, id=p.id))[0]))
    waithook.HOOK[0] = (lambda ev, timeout: serve()) if not asyncio_ else None

    def api(tag, thunk):
        try:
            if asyncio_:
                from vf import miniloop
                tk = miniloop.create_task(thunk())
                for _ in range(6):
                    drv.loop.settle()
                    serve()
                    if tk.done_:
                        break
                if not tk.done_:
                    # nothing more will arrive: the timed wait expires
                    drv.loop.run_until(lambda: tk.done_)
                r = tk.result()
            else:
                r = thunk()
            tr.append(('api', tag, 'returned', r))
        except Exception as e:
            tr.append(('api', tag, 'raised', exc_name(e)))
    try:
        api('connect', lambda: sc.connect('http://h', namespace='/chat', wait_timeout=1))
        c = holder['c']
        for op in plan:
            name = SC_OPS[op]
            if live_only and ended[0] and name in ('two events arrive', 'event arrives', 'server ends', 'server closes the transport',
                                                    'message arrives'):
                continue
            if live_only:
                if name == 'two events arrive':
                    tr.extend([('arrived', ['burst', 0]), ('arrived', ['burst', 1])])
                elif name == 'event arrives':
                    tr.append(('arrived', ['news', len(tr) + 1]))
                elif name == 'message arrives':
                    tr.append(('arrived', ['message', 'text']))
                elif name in ('server ends', 'disconnect', 'server closes the transport'):
                    if name != 'disconnect':
                        tr.append(('ended',))
                    ended[0] = True
            if name == 'emit':
                api('emit', lambda: sc.emit('hello', (1, 'x')))
            elif name == 'call+ack':
                holder['ack'] = True
                api('call', lambda: sc.call('ping', 1, timeout=1))
                holder['ack'] = False
            elif name == 'two events arrive':
                for j in range(2):
                    drv.call(c.eio.recv(worlds.encode_frames(P(packet.EVENT, data=['burst', j], namespace='/chat'))[0]))
                if asyncio_:
                    drv.loop.settle()
            elif name == 'event arrives':
                drv.call(c.eio.recv(worlds.encode_frames(P(packet.EVENT, data=['news', len(tr)], namespace='/chat'))[0]))
                if asyncio_:
                    drv.loop.settle()
            elif name == 'receive':
                api('receive', lambda: sc.receive(timeout=1))
            elif name == 'receive timeout':
                api('receive', lambda: sc.receive(timeout=0.5))
            elif name == 'server ends':
                drv.call(c.eio.recv(worlds.encode_frames(P(packet.DISCONNECT, namespace='/chat'))[0]))
                if asyncio_:
                    drv.loop.settle()
            elif name == 'disconnect':
                api('disconnect', lambda: sc.disconnect())
                user_disconnected[0] = True
            elif name == 'connect again':
                # the application uses the same simple client object for a second connection (after its own disconnect())
                if user_disconnected[0]:
                    holder['pos'] = 0
                    if live_only:
                        tr.append(('reconnected',))
                    ended[0] = False
                    user_disconnected[0] = False
                    api('connect', lambda: sc.connect('http://h', namespace='/chat', wait_timeout=1))
                    c = holder['c']
            elif name == 'message arrives':
                # what the server's send() produces: an event named 'message'
                drv.call(c.eio.recv(worlds.encode_frames(P(packet.EVENT, data=['message', 'text'], namespace='/chat'))[0]))
                if asyncio_:
                    drv.loop.settle()
            elif name == 'server closes the transport':
                drv.call(c.eio.server_close())          # engine.io CLOSE packet
                if asyncio_:
                    drv.loop.settle()
        if not live_only:
            # epilogue of the differential pair: whatever is buffered now is read once more
            api('receive', lambda: sc.receive(timeout=0.5))
        tr.append(('out', [worlds.pk(p) for p in worlds.decode_frames(P, [f for f in c.eio.out if not isinstance(f, tuple)])]))
        tr.append(('contained', [exc_name(x[1]) for x in c.eio.contained]))
    finally:
        waithook.HOOK[0] = None
    return tr


def h_simple(t, part):
    if 'first' in part:
        t.force([part['first']])
    plan = [t.choice(len(SC_OPS)) for _ in range(part['n'])]
    with notrace():
        a = run_simple(False, plan, reconnection=part.get('reconnection', False))
        b = run_simple(True, plan, reconnection=part.get('reconnection', False))
    t.reached('pair')
    return compare(a, b, 'simple-client', [SC_OPS[o] for o in plan])


# ---- the API of a write-only (external process) pub/sub manager --------------------------------------------------------------
W_OPS = ['emit', 'emit namespace room', 'emit skip_sid list', 'emit callback', 'enter_room', 'leave_room', 'close_room',
         'close_room no namespace', 'disconnect', 'disconnect no namespace', 'send-like emit to sid']


def run_writer(asyncio_, plan):
    import pickle
    from harness import c07
    chan = []
    m = c07.make_manager(asyncio_, chan, write_only=True)
    m.host_id = 'fixed-host-id'
    drv = worlds.AsyncDriver(None, 2000) if asyncio_ else worlds.SyncDriver()
    tr = []

    def api(tag, thunk):
        try:
            tr.append((tag, 'returned', drv.call(thunk())))
        except Exception as e:
            tr.append((tag, 'raised', exc_name(e)))
    for op in plan:
        name = W_OPS[op]
        if name == 'emit':
            api(name, lambda: m.emit('ev', {'a': 1}))
        elif name == 'emit namespace room':
            api(name, lambda: m.emit('ev', (1, 'x'), namespace='/a', room='lobby'))
        elif name == 'emit skip_sid list':
            api(name, lambda: m.emit('ev', 1, namespace='/', to='lobby', skip_sid=['s1', 's2']))
        elif name == 'emit callback':
            api(name, lambda: m.emit('ev', 1, namespace='/', room='s1', callback=lambda *a: None))
        elif name == 'enter_room':
            api(name, lambda: m.enter_room('s1', '/', 'lobby'))
        elif name == 'leave_room':
            api(name, lambda: m.leave_room('s1', '/', 'lobby'))
        elif name == 'close_room':
            api(name, lambda: m.close_room('lobby', '/a'))
        elif name == 'close_room no namespace':
            api(name, lambda: m.close_room('lobby'))
        elif name == 'disconnect':
            api(name, lambda: m.disconnect('s1', '/a'))
        elif name == 'disconnect no namespace':
            api(name, lambda: m.disconnect('s1'))
        else:
            api(name, lambda: m.emit('message', 'hello', to='s1'))
    drv.finish()
    tr.append(('published', [pickle.loads(x) for x in chan]))
    return tr


def h_writer(t, part):
    plan = [t.choice(len(W_OPS)) for _ in range(part['n'])]
    with notrace():
        a = run_writer(False, plan)
        b = run_writer(True, plan)
    t.reached('pair')
    return compare(a, b, 'write-only-manager', [W_OPS[o] for o in plan])


def server_parts(tier):
    n = 3 if tier == 'quick' else 4
    out = [{'n': n, 'classns': cn, 'first': f} for cn in (False, True) for f in range(len(S_OPS))]
    # disconnect handlers that raise, or that emit to everybody (the leaving client included)
    ends = [S_OPS.index(x) for x in ('client disconnect', 'server disconnect', 'loss e1', 'emit room', 'enter')]
    out += [{'n': n, 'classns': mode, 'first': f} for mode in ('raising-disconnect', 'emitting-disconnect') for f in ends]
    return out


def client_parts(tier):
    n = 3 if tier == 'quick' else 4
    return [{'n': n, 'first': f} for f in range(len(C_OPS))]


def simple_parts(tier):
    n = 3 if tier == 'quick' else 4
    return [{'n': n, 'first': f} for f in range(len(SC_OPS))] + \
        [{'n': n - 1, 'first': f, 'reconnection': True} for f in range(len(SC_OPS))]


CHECKS = [
    dict(name='servers', fn=h_server, parts=server_parts, budget={'quick': 180, 'thorough': 1500}),
    dict(name='clients', fn=h_client, parts=client_parts, budget={'quick': 180, 'thorough': 900}),
    dict(name='pubsub-managers', fn=h_pubsub, parts=[{'n': 2, 'first': f} for f in range(len(P_KINDS))],
         budget={'quick': 180, 'thorough': 300}),
    dict(name='write-only-manager', fn=h_writer, parts=[{'n': 2}], budget={'quick': 60, 'thorough': 60}),
    dict(name='simple-clients', fn=h_simple, parts=simple_parts, budget={'quick': 180, 'thorough': 600}),
]

META = dict(
    explanation='The same solver-chosen script is executed once against the threaded class and once against its asyncio '
                'twin (miniloop in FIFO order, handlers inline, background tasks joined), and the traces - packets per '
                'peer in order, handler and callback invocations with arguments, API results or exception types, exceptions '
                'contained by engine.io, published pub/sub messages, final rooms/state - must be identical. Pairs: '
                'Server/AsyncServer (+Manager/AsyncManager, Namespace/AsyncNamespace), Client/AsyncClient, '
                'PubSubManager/AsyncPubSubManager listeners, SimpleClient/AsyncSimpleClient. The script is the only '
                'symbolic input: solver-driven enumeration, equality decided on concrete traces.',
    bounds={'quick': 'servers: all triples of %d operations (valid and malformed client packets, server API calls incl. raising '
                     'callbacks and duplicate ACKs, transport loss), with and without a class-based namespace; clients: all '
                     'triples of %d operations; pub/sub: all pairs of 9 message kinds x 4 encodings x 4 variants; simple '
                     'clients: all triples of %d operations' % (len(S_OPS), len(C_OPS), len(SC_OPS)),
            'thorough': 'quadruples'},
    outside=['timing', 'handlers that suspend (asyncio-only behaviour by definition)', 'SimpleClient.call() after a timeout '
             '(it retries for ever by design: call() treats TimeoutError like any SocketIOError)', 'ClientNamespace pair beyond what the '
             'client scenarios exercise'],
    stubs=['engine.io server/client -> fakes', 'JSON text -> TokJson', 'asyncio -> vf.miniloop (FIFO)',
           'Event.wait -> vf.waithook'],
    assumptions=['session ids are generated deterministically by the fake (S1, S2, ...), identically on both sides'],
)
