"""C02 End-to-end payload transparency between client and server handlers."""
from socketio import exceptions

from vf import worlds, miniloop, waithook
from vf.tape import Fail, notrace

PROPERTY = 'C02'
EVENTS = ['ev', 'message', 'two words']


def args_of(x):
    """what the peer's handler must receive for emit(event, x)"""
    if x is None:
        return ()
    if isinstance(x, tuple):
        return tuple(norm(v) for v in x)
    return (norm(x),)


def norm(v):
    if isinstance(v, (list, tuple)):
        return [norm(i) for i in v]
    if isinstance(v, dict):
        return {k: norm(i) for k, i in v.items()}
    return v


def same(a, b):
    """structural equality that tells bytes from str and list from tuple"""
    if isinstance(a, (bytes, bytearray)) or isinstance(b, (bytes, bytearray)):
        return isinstance(a, (bytes, bytearray)) and isinstance(b, (bytes, bytearray)) and a == b
    if isinstance(a, tuple) or isinstance(b, tuple):
        return isinstance(a, tuple) and isinstance(b, tuple) and len(a) == len(b) and all(same(x, y) for x, y in zip(a, b))
    if isinstance(a, list) or isinstance(b, list):
        return isinstance(a, list) and isinstance(b, list) and len(a) == len(b) and all(same(x, y) for x, y in zip(a, b))
    if isinstance(a, dict) or isinstance(b, dict):
        return isinstance(a, dict) and isinstance(b, dict) and sorted(a) == sorted(b) and all(same(a[k], b[k]) for k in a)
    if a is None or b is None:
        return a is None and b is None
    if isinstance(a, bool) != isinstance(b, bool):
        return False
    return a == b


def draw_value(t, part):
    """one payload: None / scalar / tree with bytes / tuple of 2-3 values"""
    if part.get('trees'):
        # any tree of depth <= 2 and width <= 2 over {int, bytes} leaves (symbolic ints, concrete distinct bytes)
        cnt = [0]

        def tree(d):
            k = t.choice(3) if d > 0 else 0
            if k == 0:
                if t.bool():
                    return t.int(-3, 3)
                cnt[0] += 1
                return b'b%d' % cnt[0] if cnt[0] != 2 else b''       # (the second byte string of a payload is empty)
            n = t.choice(3)
            if k == 1:
                return [tree(d - 1) for _ in range(n)]
            return {['num', 'k1'][i]: tree(d - 1) for i in range(n)}
        return tree(2)
    form = t.choice(5)
    x = t.int(0, 1) if part['serializer'] == 'msgpack' else t.int(-3, 3)      # msgpack realises: enumerated
    if form == 0:
        return None
    if form == 1:
        return x
    if form == 2:
        return ['\u00e9\x00\U0001f600', [b'in-list', [x, b'deeper', b'']], {'b': b'\x00' + bytes([7]), 'n': [x, None], 'f': 0.1}]
    if form == 3:
        return (x, 'two')
    return (b'raw', {'k': x}, [x])


def h(t, part):
    asyncio_ = part['async']
    direction = part['direction']          # c2s / s2c
    with notrace():
        L = worlds.Link(asyncio_, serializer=part['serializer'])
        got = []
        rets = []

        def mk(side):
            if asyncio_:
                async def f(*a):
                    k = len(got)
                    got.append((side, a))
                    if part.get('suspend'):
                        await miniloop.checkpoint('handler')
                    return rets[k] if k < len(rets) else None
            else:
                def f(*a):
                    k = len(got)
                    got.append((side, a))
                    return rets[k] if k < len(rets) else None
            return f
        if asyncio_:
            async def on_connect(sid, environ):
                return None
        else:
            def on_connect(sid, environ):
                return None
        for ns in ('/', '/a'):
            L.s.on('connect', on_connect, namespace=ns)
            for e in EVENTS:
                L.s.on(e, mk('server'), namespace=ns)
                L.c.on(e, mk('client'), namespace=ns)
        sids = L.connect()
    if not all(sids.values()):
        return Fail('e2e:setup', repr(sids))
    ns = '/a' if part.get('trees') else ['/', '/a'][t.choice(2)]
    ackmode = part['ack']                  # none / callback / call
    n = part['n']
    sent, acks, results = [], [], []
    waithook.HOOK[0] = (lambda ev, timeout: L.pump()) if not asyncio_ else None
    try:
        for k in range(n):
            event = 'ev' if part.get('trees') else EVENTS[t.choice(len(EVENTS) if ackmode == 'none' else 2)]
            if k > 0 and part.get('reuse'):
                x = sent[0][1]          # the application sends the very same object again
            else:
                x = draw_value(t, part)
            r = draw_value(t, part) if ackmode != 'none' else None
            rets.append(r)
            sent.append((event, x, r))
            cb = None
            if ackmode == 'callback':
                def cb(*a, k=k):
                    acks.append((k, a))
            if direction == 'c2s':
                if ackmode == 'call':
                    if asyncio_:
                        tk = miniloop.create_task(L.c.call(event, x, namespace=ns, timeout=5))
                        L.pump()
                        results.append(tk.result() if tk.done_ else ('pending',))
                    else:
                        results.append(L.c.call(event, x, namespace=ns, timeout=5))
                elif event == 'message':
                    L.call(L.c.send(x, namespace=ns, callback=cb))
                else:
                    L.call(L.c.emit(event, x, namespace=ns, callback=cb))
            else:
                to = sids[ns]
                if ackmode == 'call':
                    if asyncio_:
                        L.s.async_handlers = True
                        tk = miniloop.create_task(L.s.call(event, x, to=to, namespace=ns, timeout=5))
                        L.pump()
                        results.append(tk.result() if tk.done_ else ('pending',))
                    else:
                        L.s.async_handlers = True
                        results.append(L.s.call(event, x, to=to, namespace=ns, timeout=5))
                elif event == 'message':
                    L.call(L.s.send(x, to=to, namespace=ns, callback=cb))
                else:
                    L.call(L.s.emit(event, x, to=to, namespace=ns, callback=cb))
            if part.get('pump_each', True):
                L.pump()
        L.pump()
        L.drv.finish()
    except exceptions.TimeoutError:
        return Fail('e2e:call-timeout', 'call() timed out although the peer handled the event: %r' % (got,))
    finally:
        waithook.HOOK[0] = None
    cont = L.seio.contained + L.ceio.contained
    if cont:
        return Fail('e2e:exception:%s' % type(cont[0][1]).__name__, repr(cont[:2]))
    t.reached('delivered')
    side = 'server' if direction == 'c2s' else 'client'
    if len(got) != n or any(g[0] != side for g in got):
        return Fail('e2e:delivery-count', 'sent %d, handled %r' % (n, got))
    for k, (event, x, r) in enumerate(sent):
        a = got[k][1]
        if direction == 'c2s':
            if not a or a[0] != sids[ns]:
                return Fail('e2e:sid-argument', repr(a))
            a = a[1:]
        if not same(tuple(a), args_of(x)):
            return Fail('e2e:arguments:%s' % ('order-or-content'), 'message %d: sent %r, handler got %r' % (k, x, a))
        if ackmode == 'callback':
            mine = [q for q in acks if q[0] == k]
            if len(mine) != 1 or not same(tuple(mine[0][1]), args_of(r)):
                return Fail('e2e:callback-arguments', 'message %d: handler returned %r, callback got %r' % (k, r, mine))
        elif ackmode == 'call':
            ar = args_of(r)
            want = None if len(ar) == 0 else ar[0] if len(ar) == 1 else ar
            res = results[k]
            if isinstance(want, tuple):
                ok = isinstance(res, (tuple, list)) and same(list(res), list(want))
            else:
                ok = same(res, want)
            if not ok:
                return Fail('e2e:call-result', 'message %d: handler returned %r, call() gave %r' % (k, r, res))
    return None


def parts(tier):
    out = []
    for a in (False, True):
        for ser in ('default', 'msgpack'):
            for d in ('c2s', 's2c'):
                for ack in ('none', 'callback', 'call'):
                    if tier == 'quick' and ser == 'msgpack' and ack == 'call':
                        continue
                    out.append({'async': a, 'serializer': ser, 'direction': d, 'ack': ack, 'n': 1})
                # two consecutive messages: order; on asyncio also with handlers that suspend while the next arrives
                out.append({'async': a, 'serializer': ser, 'direction': d, 'ack': 'none', 'n': 2, 'pump_each': False,
                            'suspend': a, 'reuse': True})
                if ser == 'default':
                    out.append({'async': a, 'serializer': ser, 'direction': d, 'ack': 'none', 'n': 1, 'trees': True})
    return out


CHECKS = [dict(name='end-to-end', fn=h, parts=parts, budget={'quick': 180, 'thorough': 900}, per_path_s=30)]

META = dict(
    explanation='A real Client and a real Server (and AsyncClient/AsyncServer on one miniloop) are joined back to back; '
                'whatever one side emits/sends/calls is pumped frame by frame into the other side\'s engine.io message '
                'callback. Event names, payload forms (None, scalar, tree with bytes, tuples), handler return forms and '
                'the namespace are tape draws with symbolic leaves; the handler\'s arguments, the callback\'s arguments, '
                'the result of call() and the order of handling are compared with the documented rules by a '
                'type-strict structural equality.',
    bounds={'quick': 'one message per configuration {threaded, asyncio} x {default, msgpack} x {client->server, '
                     'server->client} x {no ack, callback, call()} x 3 event names x 5 payload forms (x 5 return forms); without ack also every payload tree of '
                     'depth <= 2, width <= 2 over int/bytes leaves (default serializer); '
                     'symbolic ints -3..3 as leaves, strings with non-ASCII, NUL and non-BMP characters; two consecutive messages without ack carrying the same payload object (on asyncio '
                     'with handlers that suspend while the next message arrives; engine.io\'s task-per-message is modelled)',
            'thorough': 'same'},
    outside=['base64/text framing of attachments (engine.io payload code)', 'concurrent emitters (documented unsupported)',
             'msgpack C code: leaf values are realised at that boundary (one representative per path)',
             'the threaded client\'s thread-per-message delivery (handled inline, in order)'],
    stubs=['engine.io server/client -> fakes joined by a pump', 'JSON text -> TokJson (shared by both ends)',
           'msgpack -> real C extension behind a realising shim', 'Event.wait of call() -> pump', 'asyncio -> vf.miniloop'],
    assumptions=['stdlib json / msgpack: loads(dumps(x)) == x up to tuple->list'],
)
