"""C18 Admin instrumentation: gated by credentials, invisible to the application."""
from socketio import packet

from vf import worlds, miniloop
from vf.tape import Fail, notrace

PROPERTY = 'C18'
ADMIN = '/admin'
CRED = {'username': 'u', 'password': 'pw'}
CRED2 = {'username': 'v', 'password': 'x'}


def instrument(w, auth, mode, read_only, namespace='/admin'):
    return w.s.instrument(auth=auth, mode=mode, read_only=read_only, namespace=namespace)


def admin_members(w):
    rooms = w.s.manager.rooms.get(ADMIN, {})
    return sorted(rooms.get(None, {}).keys()) if rooms else []


# ---- the gate ---------------------------------------------------------------------------------------------------
def h_gate(t, part):
    asyncio_ = part['async']
    conf = part['conf']         # dict / list / predicate / coroutine-predicate / false
    # what the predicate answers with (a "no" need not be the object False, a "yes" need not be True)
    no_val = [False, None, 0, ''][t.choice(4)] if 'predicate' in conf else False
    yes_val = [True, 1, 'ok'][t.choice(3)] if 'predicate' in conf else True
    seen = []

    def decide(a):
        seen.append(a)
        return yes_val if a == CRED else no_val
    if conf == 'dict':
        auth = dict(CRED)
    elif conf == 'list':
        auth = [dict(CRED2), dict(CRED)]
    elif conf == 'predicate':
        auth = decide
    elif conf == 'coroutine-predicate':
        async def auth(a):
            return decide(a)
    elif conf == 'awaitable-predicate':
        # an async predicate that is not a coroutine *function*: an object with `async def __call__` / a lambda that returns
        # the coroutine of one
        class Check:
            async def __call__(self, a):
                return decide(a)
        kind = t.choice(3)
        if kind == 0:
            auth = Check()
        elif kind == 1:
            auth = (lambda a, c=Check(): c(a))
        else:
            # ... or a plain function returning a task / future (e.g. loop.run_in_executor(...))
            auth = (lambda a, c=Check(): miniloop.create_task(c(a)))
    elif conf == 'partial-predicate':
        # a predicate as an application writes it: it raises TypeError / KeyError on payloads of an unexpected shape
        def auth(a):
            seen.append(a)
            return a['username'] == CRED['username'] and a['password'] == CRED['password']
    elif conf == 'partial-coroutine-predicate':
        async def auth(a):
            seen.append(a)
            return a['username'] == CRED['username'] and a['password'] == CRED['password']
    else:
        auth = False
    # the presented payload
    pk = t.choice(12)
    s1, s2 = t.str(2), t.str(2)
    payload = [None, {}, {'username': 'u'}, dict(CRED), {'password': 'pw', 'username': 'u'}, dict(CRED, extra=1),
               [['username', 'u'], ['password', 'pw']], {'auth': dict(CRED)}, {'username': 'u', 'password': ['pw']},
               {'username': s1, 'password': s2}, dict(CRED2), 'u:pw'][pk]
    with notrace():
        w = worlds.SWorld(asyncio_, async_handlers=False, always_connect=part.get('always_connect', False))
        if asyncio_:
            async def oc(sid, environ):
                return None
        else:
            def oc(sid, environ):
                return None
        w.s.on('connect', oc)
        instrument(w, auth, part['mode'], part['read_only'])
        w.open('a0')
    before = admin_members(w)
    w.send('a0', w.P(packet.CONNECT, data=payload, namespace=ADMIN))
    w.finish()
    got = [worlds.pk(p) for p in w.take('a0')]
    if conf == 'false':
        allowed = True
    elif conf == 'dict':
        allowed = payload == CRED
    elif conf == 'list':
        allowed = payload in (CRED, CRED2)
    elif 'partial' in conf:
        allowed = isinstance(payload, dict) and payload.get('username') == CRED['username'] and payload.get('password') == CRED['password']
    else:
        allowed = payload == CRED
    t.reached('gate')
    t.note(conf, pk, allowed)
    raised = 'partial' in conf and bool(w.eio.contained)
    if raised and not allowed and admin_members(w) != before:
        return Fail('admin:gate:refused-gains-membership:predicate-raised', 'the predicate raised %r on payload %r; the client is a '
                    'member of the admin namespace: %r' % (w.eio.contained[0][1], payload, admin_members(w)))
    if w.eio.contained and not raised:
        return Fail('admin:gate:exception:%s' % type(w.eio.contained[0][1]).__name__, repr(w.eio.contained[0]))
    answers = [g for g in got if g[0] in (packet.CONNECT, packet.CONNECT_ERROR) and g[1] == ADMIN]
    accepted = any(g[0] == packet.CONNECT for g in answers)
    if part.get('always_connect'):
        # the server answers CONNECT first; a refusal is the DISCONNECT that follows it
        ended = [g for g in got if g[0] == packet.DISCONNECT and g[1] == ADMIN]
        accepted = accepted and not ended
        if not allowed and not accepted:
            answers = [(packet.CONNECT_ERROR, ADMIN, None, 'CONNECT followed by DISCONNECT')] if ended else answers
    if accepted != allowed:
        return Fail('admin:gate:%s:%s' % ('wrongly-accepted' if accepted else 'wrongly-refused', conf),
                    'config %s, predicate answers (%r/%r), payload %r -> %r' % (conf, yes_val, no_val, payload, answers))
    members = admin_members(w)
    if not allowed:
        if len(answers) != 1 or answers[0][0] != packet.CONNECT_ERROR:
            return Fail('admin:gate:refusal-answer', repr(answers))
        if members != before:
            return Fail('admin:gate:refused-gains-membership', repr(members))
        # observation, not claimed: in development mode the refused client does receive the room_joined /
        # socket_connected events about itself that are broadcast while its connect handler runs
    elif len(members) != len(before) + 1:
        return Fail('admin:gate:accepted-not-member', repr(members))
    return None


# ---- read-only: no request of an admin can touch application clients ---------------------------------------
def app_view(w, es):
    out = {}
    for e in es:
        sid = w.sid(e, '/')
        out[e] = (sid is not None and w.s.manager.is_connected(sid, '/'), sorted(map(str, w.s.rooms(sid))) if sid else None,
                  len(w.frames(e)))
    return out


def h_readonly(t, part):
    asyncio_ = part['async']
    with notrace():
        w = worlds.SWorld(asyncio_, async_handlers=False)
        calls = []
        if asyncio_:
            async def oc(sid, environ):
                return None

            async def od(sid, reason):
                calls.append(('disconnect', sid))
        else:
            def oc(sid, environ):
                return None

            def od(sid, reason):
                calls.append(('disconnect', sid))
        w.s.on('connect', oc)
        w.s.on('disconnect', od)
        instrument(w, False, part['mode'], part['read_only'])
        for e in ('e0', 'e1', 'a0'):
            w.open(e)
        s0, s1 = w.connect('e0', '/'), w.connect('e1', '/')
        w.call(w.s.enter_room(s0, 'lobby'))
        admin_sid = w.connect('a0', ADMIN)
        w.finish()
        for e in ('e0', 'e1', 'a0'):
            w.take(e)
    if admin_sid is None:
        return Fail('admin:readonly:setup', 'admin could not connect with auth disabled')
    before = app_view(w, ['e0', 'e1'])
    req = t.choice(4)
    target = [None, 'lobby', 's0', 'nobody'][t.choice(4)]
    target = s0 if target == 's0' else target
    x = t.int(-2, 2)
    name = ['emit', 'join', 'leave', '_disconnect'][req]
    args = {'emit': ['/', target, 'pwned', x], 'join': ['/', 'evil', target], 'leave': ['/', 'lobby', target],
            '_disconnect': ['/', True, target]}[name]
    w.send('a0', w.P(packet.EVENT, data=[name] + args, namespace=ADMIN, id=[None, 3][t.choice(2)]))
    w.finish()
    after = app_view(w, ['e0', 'e1'])
    t.reached('readonly')
    locked = part['read_only'] or part['mode'] == 'production'
    if locked and (after != before or calls):
        return Fail('admin:readonly:%s-had-effect' % name, 'request %s%r: %r -> %r, handlers %r' % (name, args, before, after, calls))
    return None


# ---- transparency: instrumented vs plain server on the same application scenario -----------------------------
def h_transparent(t, part):
    asyncio_ = part['async']
    with_admin = part['admin']
    n = part['n']
    plan = []
    for k in range(n):
        op = t.choice(9)
        plan.append((op, t.choice(2), t.choice(5) - 2))

    def run(instrumented):
        w = worlds.SWorld(asyncio_, async_handlers=False)
        log = []

        def mk(tag, ret=None):
            # (the WSGI environ is logged as the handler sees it at that moment: a copy)
            if asyncio_:
                async def f(sid, *a):
                    log.append((tag, norm_sid(sid), tuple(dict(x) if isinstance(x, dict) else x for x in a)))
                    return ret
            else:
                def f(sid, *a):
                    log.append((tag, norm_sid(sid), tuple(dict(x) if isinstance(x, dict) else x for x in a)))
                    return ret
            return f
        names = {}

        def norm_sid(s):
            return names.get(s, s)
        w.s.on('connect', mk('connect'))
        w.s.on('disconnect', mk('disconnect'))
        w.s.on('ev', mk('ev', ('r', 0)))
        adm = part.get('admin_ns', ADMIN)
        if instrumented:
            instrument(w, False, part['mode'], part['read_only'], namespace=adm)
        es = ['e0', 'e1']
        for e in es + ['a0']:
            # a handshake as a browser sends it: credentials in the headers, which the application may read at any time
            w.open(e, {'E': e, 'REMOTE_ADDR': '10.0.0.7', 'HTTP_USER_AGENT': 'ua', 'HTTP_COOKIE': 'session=' + e,
                       'HTTP_AUTHORIZATION': 'Bearer ' + e, 'QUERY_STRING': 'EIO=4&transport=polling', 'wsgi.url_scheme': 'https'})
        if instrumented and with_admin:
            w.connect('a0', adm)
        live = {}
        for i, e in enumerate(es):
            sid = w.connect(e, '/')
            names[sid] = 'sid-%s' % e
            live[e] = sid
        cbs = []
        ever = dict(live)

        def api(thunk):
            try:
                w.call(thunk())
            except Exception as ex:
                log.append(('api-raised', type(ex).__name__, ()))
        for op, who, x in plan:
            e = es[who]
            sid = live[e]
            if op == 0 and sid:
                api(lambda: w.s.enter_room(sid, 'room'))
            elif op == 1:
                api(lambda: w.s.leave_room(ever[e], 'room'))       # also for a client that has gone
            elif op == 8:
                if instrumented and with_admin:
                    w.open('a1')
                    w.connect('a1', adm)                              # another admin logs in later
            elif op == 7:
                for e2 in es:                                           # the namespace empties
                    if live[e2]:
                        w.send(e2, w.P(packet.DISCONNECT))
                        live[e2] = None
            elif op == 2:
                api(lambda: w.s.emit('news', (x, b'bin' if x == 2 else 'y'), room='room', skip_sid=live['e0'] if who else None))
            elif op == 3 and sid:
                api(lambda: w.s.emit('question', x, to=sid, callback=lambda *a: cbs.append(a)))
                q = [p for p in worlds.decode_frames(w.P, w.frames(e)) if not isinstance(p, tuple) and p.packet_type == packet.EVENT
                     and p.data[0] == 'question']
                if q and q[-1].id is not None:
                    w.send(e, w.P(packet.ACK, data=['answer', x], id=q[-1].id))
            elif op == 4 and sid:
                w.send(e, w.P(packet.EVENT, data=['ev', b'bin' if x == 2 else x], id=7 if x >= 0 else None))
            elif op == 5 and sid:
                w.send(e, w.P(packet.DISCONNECT))
                live[e] = None
            elif op == 6:
                api(lambda: w.s.close_room('room'))
        w.finish()
        view = {}
        for e in es:
            pk = [worlds.pk(p) for p in worlds.decode_frames(w.P, w.frames(e))]
            view[e] = [(a, b, c, rename(d, names)) for a, b, c, d in pk]
        rooms = {e: sorted(map(str, w.s.rooms(live[e]))) if live[e] else None for e in es}
        rooms = {e: [names.get(r, r) for r in v] if v else v for e, v in rooms.items()}
        log = [(a, names.get(b, b), c) for a, b, c in log]
        environs = {e: dict(w.s.get_environ(live[e]) or {}) if live[e] else None for e in es}
        return dict(packets=view, handlers=log, callbacks=cbs, rooms=rooms, contained=[repr(c[1]) for c in w.eio.contained],
                    environ=environs)

    def rename(d, names):
        if isinstance(d, dict):
            return {k: rename(v, names) for k, v in d.items()}
        if isinstance(d, list):
            return [rename(v, names) for v in d]
        return names.get(d, d) if isinstance(d, str) else d

    with notrace():
        plain = run(False)
        inst = run(True)
    t.reached('transparent')
    t.note(plan)
    for key in ('packets', 'handlers', 'callbacks', 'rooms', 'contained', 'environ'):
        if not (plain[key] == inst[key]):
            return Fail('admin:visible:%s' % key, 'plan %r\nplain        %r\ninstrumented %r' % (plan, plain[key], inst[key]))
    return None


def gate_parts(tier):
    out = []
    for a in (False, True):
        for conf in ('dict', 'list', 'predicate', 'coroutine-predicate', 'false', 'partial-predicate', 'partial-coroutine-predicate',
                     'awaitable-predicate'):
            if ('coroutine' in conf or 'awaitable' in conf) and not a:
                continue
            modes = [('development', False)] if tier == 'quick' else [('development', False), ('development', True),
                                                                       ('production', False), ('production', True)]
            for mode, ro in modes:
                out.append({'async': a, 'conf': conf, 'mode': mode, 'read_only': ro})
        for conf in ('dict', 'predicate'):
            out.append({'async': a, 'conf': conf, 'mode': 'development', 'read_only': False, 'always_connect': True})
    return out


def ro_parts(tier):
    return [{'async': a, 'mode': m, 'read_only': ro} for a in (False, True)
            for m, ro in (('development', True), ('production', False), ('production', True), ('development', False))]


def tr_parts(tier):
    n = 2 if tier == 'quick' else 3
    out = [{'async': a, 'mode': m, 'read_only': ro, 'admin': ad, 'n': n} for a in (False, True)
           for m, ro in (('development', False), ('production', True)) for ad in (False, True)]
    out += [{'async': a, 'mode': 'development', 'read_only': False, 'admin': True, 'n': n, 'admin_ns': '/monitor'} for a in (False, True)]
    return out


# ---- transparency at the engine.io level: the ping wrapper still sends the PING -----------------------------------------
def h_ping(t, part):
    """development mode wraps engineio's Socket._send_ping (to report the socket's state to the admins with every ping): the
    wrapped method must still send the PING, whoever is or is not connected"""
    asyncio_ = part['async']
    state = t.choice(4)
    with notrace():
        import engineio.socket
        import engineio.async_socket
        S = engineio.async_socket.AsyncSocket if asyncio_ else engineio.socket.Socket
        saved = S._send_ping
        pings = []
        if asyncio_:
            async def rec(self):
                pings.append(self.sid)
                return 'sent'
        else:
            def rec(self):
                pings.append(self.sid)
                return 'sent'
        S._send_ping = rec
        try:
            w = worlds.SWorld(asyncio_, async_handlers=False)
            if asyncio_:
                async def oc(sid, environ):
                    return None
            else:
                def oc(sid, environ):
                    return None
            w.s.on('connect', oc)
            instrument(w, False, 'development', False)
            w.open('e0')
            w.open('a0')
            if state in (1, 2):
                w.connect('e0', '/')             # the socket's client is on an application namespace
            if state in (2, 3):
                w.connect('a0', ADMIN)          # an admin is watching
            w.finish()
            sock = S.__new__(S)
            sock.sid = 'e0'
            r = w.call(S._send_ping(sock))
        finally:
            S._send_ping = saved
    t.reached('ping')
    if pings != ['e0'] or r != 'sent':
        return Fail('admin:visible:ping', 'state %s (0 idle server, 1 client connected, 2 client and admin, 3 admin only): the '
                    'engine.io PING of the client was sent %d times (result %r)' % (state, len(pings), r))
    return None


CHECKS = [
    dict(name='gate', fn=h_gate, parts=gate_parts, budget={'quick': 180, 'thorough': 300}),
    dict(name='read-only', fn=h_readonly, parts=ro_parts, budget={'quick': 180, 'thorough': 300}),
    dict(name='transparency', fn=h_transparent, parts=tr_parts, budget={'quick': 180, 'thorough': 900}),
    dict(name='ping', fn=h_ping, parts=[{'async': False}, {'async': True}], budget={'quick': 30, 'thorough': 30}),
]

META = dict(
    explanation='Real InstrumentedServer / InstrumentedAsyncServer on real Server / AsyncServer. Gate: the admin CONNECT '
                'goes through the real _handle_connect and admin_connect with a payload from a palette that includes '
                'symbolic strings (the solver finds the exact-match case), against credentials configured as dict, list, '
                'sync / coroutine predicate (whose "no" may be any falsy value, "yes" any truthy value) or False. '
                'Read-only: the four mutating admin requests with symbolic arguments. Transparency: the same application '
                'scenario is run on a plain and on an instrumented server and the application clients\' packets, handler '
                'calls, callback firings and rooms are compared.',
    bounds={'quick': 'gate: 12 payload shapes x 5 configurations (x 4x3 predicate answer values); read-only: 4 requests x 4 '
                     'targets x modes; transparency: 2 application operations from {enter, leave, emit to room with '
                     'skip_sid, emit with callback + ACK, client event with/without ack, DISCONNECT, close_room, every client leaving, a further admin login}, admin '
                     'connected or not, development and production/read-only',
            'thorough': 'gate in all four mode combinations; transparency with 3 operations'},
    outside=['the periodic server_stats task (timer driven; never scheduled by the stub)', 'engine.io level counters '
             '(packets/bytes in and out)', 'wall-clock timestamps inside admin events'],
    stubs=['engine.io server -> FakeEio/FakeAEio (+ _ok, _get_socket, sockets as the instrumentation expects)',
           'JSON text -> TokJson', 'asyncio -> vf.miniloop (FIFO)', 'time/datetime -> real (values not compared)'],
    assumptions=[],
)
