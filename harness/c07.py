"""C07 Multi-host pub/sub: a cluster behaves like one server holding all clients."""
import pickle

import socketio.pubsub_manager
import socketio.async_pubsub_manager
from socketio import packet

from vf import worlds, stubs
from vf.tape import Fail, notrace

PROPERTY = 'C07'
NCLIENTS = 3


def make_manager(asyncio_, chan, write_only=False):
    if asyncio_:
        class M(socketio.async_pubsub_manager.AsyncPubSubManager):
            def __init__(self):
                super().__init__(write_only=write_only, logger=stubs.NULL_LOGGER)
                self.cursor, self.limit = 0, 0

            async def _publish(self, data):
                chan.append(pickle.dumps(data))       # the bundled backends pickle their messages

            async def _listen(self):
                while self.cursor < self.limit:
                    item = chan[self.cursor]
                    self.cursor += 1
                    yield item
    else:
        class M(socketio.pubsub_manager.PubSubManager):
            def __init__(self):
                super().__init__(write_only=write_only, logger=stubs.NULL_LOGGER)
                self.cursor, self.limit = 0, 0

            def _publish(self, data):
                chan.append(pickle.dumps(data))

            def _listen(self):
                while self.cursor < self.limit:
                    item = chan[self.cursor]
                    self.cursor += 1
                    yield item
    return M()


class Cluster:
    def __init__(self, asyncio_, nhosts, placement):
        self.asyncio_ = asyncio_
        self.chan = []
        self.drv = worlds.AsyncDriver(None, 6000) if asyncio_ else worlds.SyncDriver()
        P = worlds.inj_packet_class()
        self.hosts = []
        for h in range(nhosts):
            m = make_manager(asyncio_, self.chan)
            w = worlds.SWorld(asyncio_, drv=self.drv, P=P, client_manager=m, async_handlers=False)
            w.eio.idprefix = 'H%d-' % h
            self.hosts.append(w)
        self.writer = make_manager(asyncio_, self.chan, write_only=True)
        self.P = P
        self.where = list(placement)          # client -> host
        self.sids = []
        for w in self.hosts:
            self._handlers(w)
        for c, h in enumerate(self.where):
            w = self.hosts[h]
            w.open('c%d' % c)
            self.sids.append(w.connect('c%d' % c, '/'))
        self.pos = [0] * len(self.where)
        self.settle()
        self.take_all()

    def _handlers(self, w):
        if self.asyncio_:
            async def oc(sid, environ):
                return None
        else:
            def oc(sid, environ):
                return None
        w.s.on('connect', oc)

    def call(self, x):
        return self.drv.call(x)

    def consume(self, h, upto=None):
        w = self.hosts[h]
        m = w.s.manager
        m.limit = len(self.chan) if upto is None else min(len(self.chan), upto)
        if m.cursor < m.limit:
            self.call(m._thread())

    def settle(self):
        for _ in range(20):
            if all(w.s.manager.cursor >= len(self.chan) for w in self.hosts):
                return
            for h in range(len(self.hosts)):
                self.consume(h)
        raise RuntimeError('channel does not drain')

    def frames(self, c):
        return self.hosts[self.where[c]].frames('c%d' % c)

    def take(self, c):
        fr = self.frames(c)
        new = fr[self.pos[c]:]
        self.pos[c] = len(fr)
        return worlds.decode_frames(self.P, new)

    def take_all(self):
        return [self.take(c) for c in range(len(self.where))]

    def ack(self, c, pid, data):
        w = self.hosts[self.where[c]]
        w.send('c%d' % c, self.P(packet.ACK, data=data, id=pid))


class Single:
    """the reference: one real server with the in-memory manager holding all the clients"""

    def __init__(self, asyncio_, n, drv):
        self.asyncio_ = asyncio_
        self.w = worlds.SWorld(asyncio_, drv=drv, async_handlers=False)
        if asyncio_:
            async def oc(sid, environ):
                return None
        else:
            def oc(sid, environ):
                return None
        self.w.s.on('connect', oc)
        self.sids = []
        for c in range(n):
            self.w.open('c%d' % c)
            self.sids.append(self.w.connect('c%d' % c, '/'))
        for c in range(n):
            self.w.take('c%d' % c)

    def take_all(self):
        return [self.w.take('c%d' % c) for c in range(len(self.sids))]


def view(pkts, sids):
    """comparable deliveries: (type, event/ack payload) with session ids replaced by client indices, ids dropped"""
    names = {s: 'client-%d' % i for i, s in enumerate(sids)}

    def ren(d):
        if isinstance(d, list):
            return [ren(x) for x in d]
        if isinstance(d, dict):
            return {k: ren(v) for k, v in d.items()}
        return names.get(d, d) if isinstance(d, str) else d
    return [(p.packet_type, ren(p.data), p.id is not None) if not isinstance(p, tuple) else p for p in pkts]


def alphabet(nh, delayed):
    """flattened operations: (op, via, client, target, skip)   [via == nh: the write-only external process]"""
    ops = []
    hosts = list(range(nh))
    if delayed:
        for via in hosts:
            ops += [(0, via, 0, 0, 0), (0, via, 0, 1, 0), (0, via, 2, 2, 0)]
            ops += [(2, via, 1, 1, 0), (3, via, 0, 1, 0)]
        return ops
    for via in hosts + [nh]:
        for tgt, c in ((0, 0), (1, 0), (2, 0), (2, 2), (3, 0), (5, 0)):
            ops.append((0, via, c, tgt, 0))
        ops += [(0, via, 0, 0, 1), (0, via, 0, 1, 1)]
    for via in hosts:
        for c in range(NCLIENTS):
            ops += [(1, via, c, 0, 0), (2, via, c, 1, 0), (3, via, c, 1, 0), (5, via, c, 0, 0)]
        ops += [(2, via, 0, 0, 0), (4, via, 0, 1, 0)]
        ops += [(2, via, 1, 2, 0), (2, via, 2, 2, 0)]        # a client enters the room named like client 0's session id
        ops += [(2, via, 2, 0, 0)]                           # client 2 enters r2
    for c in range(NCLIENTS):
        ops += [(6, 0, c, 0, 0), (6, 0, c, 1, 0)]
    return ops


def h(t, part):
    asyncio_ = part['async']
    nh = part['hosts']
    delayed = part['delayed']
    ALPHA = alphabet(nh, delayed)
    SECOND = [o for o in ALPHA if o[0] in (0, 1, 6)] if not delayed else ALPHA
    if 'first' in part:
        t.force([part['first']])
    n = part['n']
    plan = []
    for k in range(n):
        pool = ALPHA if (k == 0 or part.get('full')) else SECOND
        op, via, c, tgt, skip = pool[t.choice(len(pool))]
        cons = t.choice(nh + 1) if delayed else 0
        plan.append((op, via, c, tgt, skip, cons))
    # two callback emits to the same client: its acknowledgements then come in order, in reverse order, or not at all
    cb_targets = [o[2] for o in plan if o[0] == 1]
    final_mode = t.choice(3) if (not delayed and len(cb_targets) >= 2 and len(set(cb_targets)) == 1) else 0
    # client 0 lives on host 0 (hosts are symmetric); the others anywhere
    placement = [0] + [t.choice(nh) for _ in range(NCLIENTS - 1)]
    with notrace():
        cl = Cluster(asyncio_, nh, placement)
        ref = Single(asyncio_, NCLIENTS, cl.drv)
        if any(s is None for s in cl.sids + ref.sids):
            return Fail('cluster:setup', repr((cl.sids, ref.sids)))
        # pre-state: clients 0 and 1 are in 'room'
        for c0 in (0, 1):
            cl.call(cl.hosts[cl.where[c0]].s.enter_room(cl.sids[c0], 'room'))
            ref.w.call(ref.w.s.enter_room(ref.sids[c0], 'room'))
        cb_cl, cb_ref = [], []
        ever = [set() for _ in range(NCLIENTS)]       # events a client was ever eligible for (delayed mode)
        alive = [True] * NCLIENTS
        for k, (op, via, c, tgt, skip, cons) in enumerate(plan):
            tag = 'e%d' % k

            def target(sids):
                return [None, 'room', sids[c], ['room', 'r2'], 'r2', ['nobody-here', 'r2', 'room']][tgt]

            def skipped(sids):
                return sids[(c + 1) % NCLIENTS] if skip else None
            writer = via == nh
            if op in (0, 1):
                # emit (op 1: with a callback, to one client)
                with_cb = op == 1 and not writer
                for side, sids, cbs in (('cluster', cl.sids, cb_cl), ('single', ref.sids, cb_ref)):
                    to = sids[c] if with_cb else target(sids)
                    kw = dict(to=to, skip_sid=None if with_cb else skipped(sids))
                    if with_cb:
                        kw['callback'] = (lambda *a, cbs=cbs, tag=tag: cbs.append((tag, a)))
                    if side == 'single':
                        ref.w.call(ref.w.s.emit(tag, {'k': k, 'blob': {'b': b'raw'}}, **kw))
                    elif writer:
                        cl.call(cl.writer.emit(tag, {'k': k, 'blob': {'b': b'raw'}}, namespace='/', room=kw['to'], skip_sid=kw['skip_sid']))
                    else:
                        cl.call(cl.hosts[via].s.emit(tag, {'k': k, 'blob': {'b': b'raw'}}, **kw))
            elif op in (2, 3, 5) and not alive[c]:
                continue            # room operations on a client that has gone are outside the domain
            elif op == 2:
                if writer:
                    continue
                cl.call(cl.hosts[via].s.enter_room(cl.sids[c], cl.sids[0] if tgt == 2 else 'room' if tgt % 2 else 'r2'))
                ref.w.call(ref.w.s.enter_room(ref.sids[c], ref.sids[0] if tgt == 2 else 'room' if tgt % 2 else 'r2'))
            elif op == 3:
                if writer:
                    continue
                cl.call(cl.hosts[via].s.leave_room(cl.sids[c], 'room' if tgt % 2 else 'r2'))
                ref.w.call(ref.w.s.leave_room(ref.sids[c], 'room' if tgt % 2 else 'r2'))
            elif op == 4:
                if writer:
                    continue
                cl.call(cl.hosts[via].s.close_room('room' if tgt % 2 else 'r2'))
                ref.w.call(ref.w.s.close_room('room' if tgt % 2 else 'r2'))
            elif op == 5:
                if writer:
                    continue
                alive[c] = False
                cl.call(cl.hosts[via].s.disconnect(cl.sids[c]))
                ref.w.call(ref.w.s.disconnect(ref.sids[c]))
            elif op == 6:
                # the client acknowledges the pending events it has received, with arguments
                if delayed:
                    continue
                for side, frames_of, acker in (('cluster', lambda: worlds.decode_frames(cl.P, cl.frames(c)), cl.ack),
                                               ('single', lambda: worlds.decode_frames(ref.w.P, ref.w.frames('c%d' % c)),
                                                lambda c_, i, d: ref.w.send('c%d' % c_, ref.w.P(packet.ACK, data=d, id=i)))):
                    for p in frames_of():
                        if not isinstance(p, tuple) and p.packet_type in (packet.EVENT, packet.BINARY_EVENT) and p.id is not None:
                            acker(c, p.id, ['ack', p.data[0]] if tgt % 2 else [])
            if not delayed:
                cl.settle()
            elif cons < nh:
                cl.consume(cons)
            if not delayed:
                a, b = cl.take_all(), ref.take_all()
                for i in range(NCLIENTS):
                    va, vb = view(a[i], cl.sids), view(b[i], ref.sids)
                    if va != vb:
                        kind = 'duplicate' if len(va) > len(vb) else 'missing' if len(va) < len(vb) else 'different'
                        return Fail('cluster:delivery:%s' % kind, 'plan %r placement %r step %d: client %d got %r in the '
                                    'cluster, %r on a single server' % (plan, placement, k, i, va, vb))
                if sorted(cb_cl) != sorted(cb_ref):
                    return Fail('cluster:callback', 'plan %r placement %r step %d: callbacks %r in the cluster, %r on a single '
                                'server' % (plan, placement, k, cb_cl, cb_ref))
            else:
                b = ref.take_all()
                for i in range(NCLIENTS):
                    for p in b[i]:
                        if not isinstance(p, tuple) and p.packet_type == packet.EVENT:
                            ever[i].add(p.data[0])
        if not delayed:
            def pending(frames, P):
                return [p for p in worlds.decode_frames(P, frames) if not isinstance(p, tuple)
                        and p.packet_type in (packet.EVENT, packet.BINARY_EVENT) and p.id is not None]
            for c in range(NCLIENTS):
                pc = pending(cl.frames(c), cl.P)
                pr = pending(ref.w.frames('c%d' % c), ref.w.P)
                acked_c = [i for op_, via_, c_, tgt_, skip_, cons_ in plan if op_ == 6 and c_ == c]
                if len(pc) < 2 or acked_c:
                    continue
                mode = final_mode
                if mode == 0:
                    continue
                order = [0, 1] if mode == 1 else [1, 0]
                for j in order:
                    cl.ack(c, pc[j].id, ['late', pc[j].data[0]])
                    ref.w.send('c%d' % c, ref.w.P(packet.ACK, data=['late', pr[j].data[0]], id=pr[j].id))
                    cl.settle()
                if sorted(cb_cl) != sorted(cb_ref):
                    return Fail('cluster:callback', 'plan %r placement %r: acknowledgements in order %r: callbacks %r in the '
                                'cluster, %r on a single server' % (plan, placement, order, cb_cl, cb_ref))
        if delayed:
            cl.settle()
            a = cl.take_all()
            for i in range(NCLIENTS):
                evs = [p.data[0] for p in a[i] if not isinstance(p, tuple) and p.packet_type == packet.EVENT]
                dup = [e for e in set(evs) if evs.count(e) > 1]
                if dup:
                    return Fail('cluster:delayed:duplicate', 'plan %r placement %r: client %d got %r' % (plan, placement, i, evs))
        cont = [x for w in cl.hosts for x in w.eio.contained]
        if cont:
            return Fail('cluster:exception:%s' % type(cont[0][1]).__name__, repr(cont[:2]))
    t.reached('cluster')
    return None


def parts(tier):
    out = []
    for a in (False, True):
        if tier == 'quick':
            out += [{'async': a, 'hosts': 2, 'delayed': False, 'n': 2, 'first': f} for f in range(len(alphabet(2, False)))]
            if not a:
                out += [{'async': a, 'hosts': 2, 'delayed': True, 'n': 2, 'first': f} for f in range(len(alphabet(2, True)))]
        else:
            out += [{'async': a, 'hosts': 2, 'delayed': False, 'n': 2, 'full': True, 'first': f} for f in range(len(alphabet(2, False)))]
            out += [{'async': a, 'hosts': 3, 'delayed': False, 'n': 2, 'first': f} for f in range(len(alphabet(3, False)))]
            out += [{'async': a, 'hosts': 2, 'delayed': True, 'n': 3, 'first': f} for f in range(len(alphabet(2, True)))]
    return out


# ---- the listening loop of a host is started once, whatever the arrival order of its first connections --------------------
def h_start(t, part):
    """k engine.io connections arrive on one (threaded) host at the same time; starting the listening task is a
    cooperative switch point (backend I/O, greenlet/thread spawn), as are the transport calls. Every listening loop the
    host started gets its own subscription (its own cursor: kombu fan-out queue / redis pubsub object per listener)."""
    from vf import baton
    k = part['k']
    with notrace():
        sched = baton.Sched(lambda n: t.choice(n), max_decisions=40)
        chan = []

        class M(socketio.pubsub_manager.PubSubManager):
            def __init__(self):
                super().__init__(logger=stubs.NULL_LOGGER)

            def _publish(self, data):
                chan.append(pickle.dumps(data))

            def _listen(self):
                cur = 0
                while cur < len(chan):
                    item = chan[cur]
                    cur += 1
                    yield item
        m = M()
        w = worlds.SWorld(False, client_manager=m, async_handlers=False)
        w.s.on('connect', lambda sid, environ: None)
        loops = []

        def sbt(target, *a, **kw):
            sched.point('start_background_task')
            if target == m._thread:
                loops.append(target)
            sched.point('start_background_task-returned')
            return stubs._DoneTask()
        w.eio.start_background_task = sbt
        for i in range(k):
            sched.spawn((lambda i: lambda: w.s._handle_eio_connect('H-e%d' % i, {}))(i), 'conn%d' % i)
    sched.run()
    with notrace():
        t.reached('start')
        if sched.stuck or sched.over_budget:
            return Fail('cluster:start:stuck', repr(sched.trace[-6:]))
        excs = [x['exc'] for x in sched.ws if x['exc'] is not None]
        if excs:
            return Fail('cluster:start:exception:%s' % type(excs[0]).__name__, repr(excs))
        w.open('c0')
        sid = w.connect('c0', '/')
        w.take('c0')
        ext = make_manager(False, chan, write_only=True)
        ext.emit('ev', 'x', namespace='/', to=sid if part['to'] == 'sid' else None)
        for lp in loops:
            lp()
        got = [p for p in w.take('c0') if not isinstance(p, tuple) and p.packet_type == packet.EVENT]
        if len(got) != 1:
            return Fail('cluster:start:delivered-%s' % ('twice' if len(got) > 1 else 'never'),
                        '%d connections arrived together (schedule %r): the host started %d listening loops; one emit of an '
                        'external process was delivered %d times' % (k, sched.trace, len(loops), len(got)))
    return None


def start_parts(tier):
    return [{'k': k, 'to': to} for k in ((2, 3) if tier == 'quick' else (2, 3, 4)) for to in ('sid', 'all')]


CHECKS = [dict(name='cluster', fn=h, parts=parts, budget={'quick': 180, 'thorough': 1500}, per_path_s=30),
          dict(name='lazy-start', fn=h_start, parts=start_parts, budget={'quick': 60, 'thorough': 200}, per_path_s=30)]

META = dict(
    explanation='Two (thorough: three) real Servers with real PubSubManager / AsyncPubSubManager subclasses share one FIFO '
                'channel of pickled messages with a cursor per host; each host consumes through its real listener loop. '
                'The same operations are applied to a single real Server with the in-memory manager holding all clients, '
                'and per-client deliveries (session ids renamed to client indices) and callback invocations are compared. '
                'Placement of clients, operations, the issuing host (or a write-only external manager), targets, skip_sid '
                'and - in delayed mode - who consumes when are tape choices; everything is concrete once chosen. '
                'lazy-start: k first connections of a threaded host arrive together on real threads (baton), switching at '
                'transport calls and where the listening task is started; every loop started gets its own subscription and '
                'one external emit must reach the client once.',
    bounds={'quick': '3 clients (two of them in "room") placed on 2 hosts in all ways up to host symmetry; 2 operations: the '
                     'first from the full alphabet {emit via either host or the write-only process to None / room / a '
                     'session id / a list, with and without skip_sid; emit with callback to one client; enter_room, '
                     'leave_room, close_room, disconnect via either host; client ACK with and without arguments}, the '
                     'second an emit / emit with callback / ACK; immediate consumption = exact equivalence with the single '
                     'server; delayed consumption (threaded) = at most once',
            'thorough': 'both operations from the full alphabet; 3 hosts; delayed mode with 3 operations'},
    outside=['real brokers (Redis, Kombu, ZeroMQ, Kafka, aio_pika)', 'delayed mode: eligibility of recipients under racing '
             'membership changes is checked only as at-most-once', 'lazy-start: pre-emption between the test and the set of '
             'Server.manager_initialized (free-threaded pre-emption at bytecode granularity); the asyncio server has no await '
             'between them'],
    stubs=['broker -> one in-process list of pickled messages, per-host cursors', 'engine.io server -> FakeEio/FakeAEio '
           'with host-unique ids', 'JSON text -> TokJson (shared)', 'asyncio -> vf.miniloop (FIFO)'],
    assumptions=['engine.io session ids are unique across hosts'],
)
