"""C20 Threaded server: concurrent terminations of one client are safe."""
from socketio import packet

from vf import worlds, baton
from vf.tape import Fail, notrace
from harness.c11 import residue, comp

PROPERTY = 'C20'

ACTIONS = ['server.disconnect', 'client-DISCONNECT', 'transport-loss', 'other-namespace-disconnect',
           'other-namespace-client-DISCONNECT']


def h(t, part):
    acts = part['acts']
    calls = []
    with notrace():
        kw = {}
        if part.get('manager') == 'pubsub':
            from harness import c07
            kw['client_manager'] = c07.make_manager(False, [])
        w = worlds.SWorld(False, async_handlers=False, **kw)
        fine = part.get('fine')
        if fine:
            # every source line of these functions is a pre-emption point; at most part['preempt'] pre-emptions
            from socketio import base_manager, manager, server as server_mod, pubsub_manager
            fns = [base_manager.BaseManager.is_connected, base_manager.BaseManager.sid_from_eio_sid,
                   base_manager.BaseManager.eio_sid_from_sid, base_manager.BaseManager.pre_disconnect,
                   manager.Manager.can_disconnect, pubsub_manager.PubSubManager.can_disconnect]
            if fine == 'all':
                fns += [base_manager.BaseManager.basic_disconnect, base_manager.BaseManager.basic_leave_room,
                        base_manager.BaseManager.get_namespaces, base_manager.BaseManager.get_rooms,
                        manager.Manager.disconnect,
                        server_mod.Server.disconnect, server_mod.Server._handle_disconnect,
                        server_mod.Server._handle_eio_disconnect, server_mod.Server._trigger_event]
            sched = baton.Sched(lambda n: t.choice(n), max_decisions=3000,
                                fine_codes=[getattr(f, '__code__') for f in fns], preempt_budget=part['preempt'])
        else:
            sched = baton.Sched(lambda n: t.choice(n))

        def on_disconnect(sid, reason):
            sched.point('handler')
            calls.append((sid, reason))
        for ns in ('/', '/a'):
            w.s.on('connect', lambda sid, environ: None, namespace=ns)
            w.s.on('disconnect', on_disconnect, namespace=ns)
        w.open('e0')
        sid = w.connect('e0', '/')
        sid_a = w.connect('e0', '/a')
        real_mgr, real_eio = w.s.manager, w.s.eio
        w.s.manager = baton.Proxy(real_mgr, sched, 'mgr', skip=('_get_logger',),
                                  rets=('is_connected', 'can_disconnect', 'pre_disconnect', 'disconnect') if fine else ())
        if part.get('eio_points', True):
            w.s.eio = baton.Proxy(real_eio, sched, 'eio')
        if part.get('inner_points'):
            # pre-emption also inside the manager: before every nested leave_room of basic_disconnect
            inner = real_mgr.basic_leave_room

            def leave(sid_, namespace, room, inner=inner):
                sched.point('mgr-inner.basic_leave_room', args=(sid_,))
                return inner(sid_, namespace, room)
            real_mgr.basic_leave_room = leave

        def act(a):
            if a == 'server.disconnect':
                return lambda: w.s.disconnect(sid)
            if a == 'client-DISCONNECT':
                return lambda: w.s._handle_eio_message('e0', w.P(packet.DISCONNECT, namespace='/').encode())
            if a == 'transport-loss':
                return lambda: w.s._handle_eio_disconnect('e0', 'transport close')
            if a == 'other-namespace-disconnect':
                return lambda: w.s.disconnect(sid_a, namespace='/a')
            if a == 'other-namespace-client-DISCONNECT':
                return lambda: w.s._handle_eio_message('e0', w.P(packet.DISCONNECT, namespace='/a').encode())
        for i, a in enumerate(acts):
            sched.spawn(act(a), 'T%d:%s' % (i, a))
    if 'pre' in part:
        t.force(part['pre'])
    sched.run()
    with notrace():
        w.s.manager, w.s.eio = real_mgr, real_eio
        if sched.stuck:
            sched.kill_stuck()
    t.reached('schedule')
    t.note(acts, 'decisions', sched.decisions, 'switches', sched.switches)
    mode = 'sequential' if sched.switches == 0 else 'interleaved'
    pair = '||'.join(sorted(acts))
    if fine:
        mode, pair = 'line-level', 'any'      # (fine partitions: the pair is in the replay file, not in the signature)
    # the one known defect (F6): two threads both pass the is-connected check of one sid before either marks it
    # (pre_disconnect). Violations on such schedules carry the window in their signature; any other is new.
    # a call recorded at a pre-emption point executes when its thread is next resumed, i.e. just before that
    # thread's next trace entry
    tr = sched.trace
    exec_at = []
    for j, x in enumerate(tr):
        nxt = next((k for k in range(j + 1, len(tr)) if tr[k][0] == x[0]), len(tr) + j)
        exec_at.append(nxt)
    if fine:
        # the same known defect under line-level pre-emption: a thread whose check *started* before the first mark
        # of that sid was set, and which got its answer before the marking thread's manager.disconnect() returned,
        # passes too. A second pass outside that window (check started after the mark, or answered after the
        # first termination was complete) is something else.
        for S in (sid, sid_a):
            ix = lambda lab, pred=lambda x: True: [j for j, x in enumerate(tr) if x[1] == lab and S in x[2] and pred(x)]
            marks = ix('ret:mgr.pre_disconnect')
            if not marks:
                continue
            first_mark = marks[0]
            marker = tr[first_mark][0]
            done = next((j for j in ix('ret:mgr.disconnect') if tr[j][0] == marker), len(tr))
            passers = set()
            outside = False
            for lab in ('mgr.is_connected', 'mgr.can_disconnect'):
                for j in ix('ret:' + lab, lambda x: x[3] is True):
                    th = tr[j][0]
                    start = max(k for k in ix('call:' + lab) if k < j and tr[k][0] == th)
                    passers.add(th)
                    if th != marker and not (start < first_mark and j < done):
                        outside = True
            if len(passers) >= 2:
                mode, pair = ('double-pass-before-mark', 'any') if not outside else ('pass-outside-the-window', 'any')
    for S in (() if fine else (sid, sid_a)):
        marks = [exec_at[j] for j, x in enumerate(tr) if x[1] == 'mgr.pre_disconnect' and S in x[2]]
        if marks:
            first_mark = min(marks)
            checkers = {x[0] for j, x in enumerate(tr)
                        if x[1] in ('mgr.is_connected', 'mgr.can_disconnect') and S in x[2] and exec_at[j] < first_mark}
            if len(checkers) >= 2:
                mode, pair = 'double-pass-before-mark', 'any'
                # on the unchanged tree the check and the mark are adjacent calls in each thread; anything a thread
                # does in between widens the window and is a different defect
                for th in checkers:
                    mine = [x for x in tr if x[0] == th]
                    ci = next((i for i, x in enumerate(mine) if x[1] in ('mgr.is_connected', 'mgr.can_disconnect') and S in x[2]), None)
                    mi = next((i for i, x in enumerate(mine) if x[1] == 'mgr.pre_disconnect' and S in x[2]), None)
                    if ci is not None and mi is not None and mi > ci + 1:
                        pair = 'gap=' + '+'.join(x[1] for x in mine[ci + 1:mi])
    if sched.over_budget:
        return Fail('race:schedule-bound-exceeded', 'more than %d decisions' % sched.max_decisions)
    if sched.stuck:
        return Fail('race:%s:%s:stuck' % (mode, pair), repr(sched.trace[-6:]))
    excs = [(x['name'], x['exc']) for x in sched.ws if x['exc'] is not None]
    if excs:
        where = ''
        if fine and mode == 'line-level':
            # which function of the library raised (line-level pre-emption tears the look-ups themselves)
            tb, fn = excs[0][1].__traceback__, '?'
            while tb is not None:
                if '/socketio/' in tb.tb_frame.f_code.co_filename:
                    fn = tb.tb_frame.f_code.co_name
                tb = tb.tb_next
            where = '@' + fn
        return Fail('race:%s:%s:exception:%s%s' % (mode, pair, type(excs[0][1]).__name__, where),
                    'thread %s raised %r; trace %r' % (excs[0][0], excs[0][1], sched.trace))
    n = len([c for c in calls if c[0] == sid])
    if n != 1:
        return Fail('race:%s:%s:handler-count=%s' % (mode, pair, n if n < 2 else '2+'), 'calls %r; trace %r' % (calls, sched.trace))
    ends_a = any(a in acts for a in ('transport-loss', 'other-namespace-disconnect', 'other-namespace-client-DISCONNECT'))
    na = len([c for c in calls if c[0] == sid_a])
    if na != (1 if ends_a else 0):
        return Fail('race:%s:%s:other-namespace-handler-count=%s' % (mode, pair, na if na < 2 else '2+'), repr(calls))
    sids = [sid] + ([sid_a] if ends_a else [])
    r = residue(w, 'e0' if 'transport-loss' in acts else None, sids)
    if r:
        return Fail('race:%s:%s:residue:%s' % (mode, pair, comp(r)), repr(r))
    if not ends_a and not w.s.manager.is_connected(sid_a, '/a'):
        return Fail('race:%s:%s:other-namespace-affected' % (mode, pair), '')
    return None


def parts(tier):
    main = ['server.disconnect', 'client-DISCONNECT', 'transport-loss']
    out = []
    for i in range(len(main)):
        for j in range(i, len(main)):
            if main[i] == main[j] == 'transport-loss':
                continue        # engine.io reports the loss of a transport once
            out.append({'acts': [main[i], main[j]]})
    for a in ('server.disconnect', 'client-DISCONNECT'):
        for o in ('other-namespace-disconnect', 'other-namespace-client-DISCONNECT'):
            out.append({'acts': [a, o]})
    heavy = lambda p: sorted(p['acts']) == ['server.disconnect', 'transport-loss']
    import itertools
    out = [dict(p, pre=list(bits), eio_points=(tier == 'thorough' or heavy(p))) for p in out
           for bits in itertools.product((0, 1), repeat=5 if heavy(p) else 3)]
    # the same on a host of a pub/sub cluster (can_disconnect() and disconnect() of the queue manager differ from the default)
    out += [dict(acts=p, pre=[a, b, c], eio_points=False, manager='pubsub')
            for p in (['server.disconnect', 'server.disconnect'], ['server.disconnect', 'client-DISCONNECT'],
                      ['server.disconnect', 'transport-loss'])
            for a in (0, 1) for b in (0, 1) for c in (0, 1)]
    # line-level pre-emption inside the manager's look-ups (is_connected, sid_from_eio_sid, eio_sid_from_sid,
    # can_disconnect, pre_disconnect), at most two pre-emptions per schedule (context bound), exhaustive
    fine_pairs = [['server.disconnect', 'client-DISCONNECT'], ['server.disconnect', 'transport-loss'],
                  ['client-DISCONNECT', 'transport-loss'], ['server.disconnect', 'server.disconnect'],
                  ['client-DISCONNECT', 'client-DISCONNECT']]
    out += [dict(acts=p, pre=[a], eio_points=False, fine='lookups', preempt=2) for p in fine_pairs for a in (0, 1)]
    # (fine='all' - the clean-up functions line by line - and preempt=3 exist but are not registered: not exhausted here)
    if tier == 'thorough':
        main_pairs = [['server.disconnect', 'client-DISCONNECT'], ['server.disconnect', 'transport-loss'],
                      ['client-DISCONNECT', 'transport-loss'], ['server.disconnect', 'server.disconnect']]
        out += [dict(acts=p, pre=[a, b, c], eio_points=False, inner_points=True) for p in main_pairs
                for a in (0, 1) for b in (0, 1) for c in (0, 1)]
        out.append({'acts': ['server.disconnect', 'client-DISCONNECT', 'transport-loss']})
        out.append({'acts': ['server.disconnect', 'transport-loss', 'other-namespace-disconnect']})
        out.append({'acts': ['server.disconnect', 'server.disconnect', 'client-DISCONNECT']})
    return out


CHECKS = [dict(name='race', fn=h, parts=parts, budget={'quick': 180, 'thorough': 900}, per_path_s=30)]

META = dict(
    explanation='Two (thorough: three) real threads run terminating actions on one session id of a real threaded Server; '
                'a baton scheduler lets exactly one run at a time and pre-empts before every call the server makes on '
                'its manager and on engine.io and inside the disconnect handler; the schedule is a vector of tape '
                'choices, so the solver enumerates exactly the feasible schedules. Solver leverage is low here (the '
                'schedule is the only symbolic input): this is systematic schedule enumeration driven by the solver.',
    bounds={'quick': 'all schedules of every pair from {server.disconnect, client DISCONNECT, transport loss} on the '
                     'same sid and of each with a disconnect of the transport\'s other namespace; pre-emption before '
                     'every manager call and inside the disconnect handler (for server.disconnect || transport loss also '
                     'before every engine.io call); five pairs again with every source line of is_connected, sid_from_eio_sid, '
                     'eio_sid_from_sid, can_disconnect and pre_disconnect as a pre-emption point (sys.settrace in the worker '
                     'threads) and at most two pre-emptions per schedule, exhaustively',
            'thorough': 'plus pre-emption before every engine.io call, plus pre-emption inside manager.disconnect (before '
                        'every nested leave_room), plus three triples of concurrent actions '
                        '(triples are budgeted, not exhausted)'},
    outside=['pre-emption inside manager methods other than the look-ups listed in the bounds; more than two pre-emptions per schedule where pre-emption is line by line; pre-emption inside a source line (CPython-level atomicity of dict operations is assumed)',
             'more than three threads'],
    stubs=['engine.io server -> FakeEio', 'JSON text -> TokJson'],
    assumptions=['each manager / engine.io method call is atomic, except in the line-level partitions, where each source line is'],
)
