"""C10 Client reconnection: only after accidental loss, bounded back-off and attempts."""
import engineio
import socketio
import socketio.client
import socketio.async_client
from socketio import packet, exceptions

from vf import worlds, miniloop, waithook, stubs
from vf.tape import Fail, notrace

PROPERTY = 'C10'
EPS = 1e-9
NSS = ['/', '/a']


class RandomStub:
    def __init__(self, t):
        self.t = t
        self.draws = []

    def random(self):
        r = self.t.real(0.0, 1.0)
        if r >= 1.0:            # random() is in [0, 1)
            from crosshair.util import IgnoreAttempt
            raise IgnoreAttempt('random() < 1')
        self.draws.append(r)
        return r


# ---- kernel: the real _handle_reconnect with connect() and the abort wait as nondeterministic stubs ---------------------
def h_kernel(t, part):
    asyncio_ = part['async']
    K = part['K']
    if part.get('float') == 'ieee' and getattr(t, 'symbolic', False):
        t.float_model = 'ieee'
    d = t.real(0.1, 4.0)
    m = t.real(0.1, 8.0)
    f = t.real(0.0, 1.0)
    attempts = part['attempts']        # 0 = unlimited
    rs = RandomStub(t)
    waits, connects, finals = [], [], []
    state = {'aborted': False, 'succeeded': False}
    if part.get('ctor'):
        # the parameters go through the constructor, as an application gives them (symbolic values inside __init__)
        c, eio, P = worlds.make_client(asyncio_, reconnection=True, reconnection_delay=d, reconnection_delay_max=m,
                                       randomization_factor=f, reconnection_attempts=attempts)
    else:
        with notrace():
            c, eio, P = worlds.make_client(asyncio_, reconnection=True)
        c.reconnection_delay = d
        c.reconnection_delay_max = m
        c.randomization_factor = f
        c.reconnection_attempts = attempts
    c.connection_url, c.connection_headers, c.connection_auth = 'http://u', {'h': 1}, {'tok': 2}
    c.connection_transports, c.connection_namespaces, c.socketio_path = ['polling'], ['/', '/a'], 'sio'

    def want_abort():
        # unwinding bound: an unlimited effort is aborted at the K-th wait
        if len(waits) >= K:
            return True
        return t.bool()

    def note_connect(url, headers=None, auth=None, transports=None, namespaces=None, socketio_path=None, retry=None,
                     **kw):
        if state['aborted'] or state['succeeded']:
            connects.append('AFTER-END')
        connects.append((url, headers, auth, transports, namespaces, socketio_path, retry))
        k = t.choice(3)
        if k == 1:
            raise exceptions.ConnectionError('refused')
        if k == 2:
            raise ValueError('Client is not in a disconnected state')
        state['succeeded'] = True

    if asyncio_:
        class Shim:
            TimeoutError = miniloop.TimeoutError
            CancelledError = miniloop.CancelledError

            @staticmethod
            async def wait_for(aw, timeout):
                aw.close()
                waits.append(timeout)
                if want_abort():
                    state['aborted'] = True
                    return True
                raise miniloop.TimeoutError()

        class Ev:
            def clear(self):
                pass

            async def wait(self):
                return True
        c._reconnect_abort = Ev()

        async def connect(*a, **kw):
            return note_connect(*a, **kw)

        async def trig(event, namespace=None, *a):
            if event == '__disconnect_final':
                finals.append(namespace)
        c.connect = connect
        c._trigger_event = trig
        saved = (socketio.async_client.asyncio, socketio.async_client.random)
        socketio.async_client.asyncio = Shim
        socketio.async_client.random = rs
        try:
            drv = worlds.AsyncDriver()
            socketio.async_client.asyncio = Shim       # AsyncDriver re-installed miniloop; the kernel wants the shim
            drv.call(c._handle_reconnect())
        finally:
            socketio.async_client.asyncio, socketio.async_client.random = saved
    else:
        class Ev:
            def clear(self):
                pass

            def wait(self, timeout=None):
                waits.append(timeout)
                if want_abort():
                    state['aborted'] = True
                    return True
                return False
        c._reconnect_abort = Ev()
        c.connect = note_connect

        def trig(event, namespace=None, *a):
            if event == '__disconnect_final':
                finals.append(namespace)
        c._trigger_event = trig
        saved = socketio.client.random
        socketio.client.random = rs
        try:
            c._handle_reconnect()
        finally:
            socketio.client.random = saved
    t.reached('backoff')
    t.note('waits', len(waits), 'attempts', len(connects), 'limit', attempts)
    # ---- the back-off schedule: |w_k - min(d * 2^(k-1), m)| <= f ----------------------------------------------
    base = d
    for k, w in enumerate(waits):
        b = base if base <= m else m
        if not (w <= b + f + EPS and w >= b - f - EPS):
            return Fail('reconnect:backoff-bound:k=%s' % ('1' if k == 0 else '2+'),
                        'wait #%d' % (k + 1))
        base = base * 2
    if 'AFTER-END' in connects:
        return Fail('reconnect:attempt-after-end', repr(connects))
    n_att = len(connects)
    if attempts and n_att > attempts:
        return Fail('reconnect:too-many-attempts', '%d > %d' % (n_att, attempts))
    for cc in connects:
        if cc != ('http://u', {'h': 1}, {'tok': 2}, ['polling'], ['/', '/a'], 'sio', False):
            return Fail('reconnect:attempt-parameters', repr(cc))
    # every attempt is preceded by exactly one wait; an abort is the last wait and is followed by no attempt
    if state['aborted']:
        if len(waits) != n_att + 1:
            return Fail('reconnect:attempt-after-abort', 'waits %d attempts %d' % (len(waits), n_att))
    elif len(waits) != n_att:
        return Fail('reconnect:wait-attempt-pairing', 'waits %d attempts %d' % (len(waits), n_att))
    gave_up = not state['succeeded']
    if gave_up:
        if sorted(finals) != ['/', '/a']:
            return Fail('reconnect:no-final-disconnect-on-give-up', repr(finals))
        if not state['aborted'] and not (attempts and n_att == attempts):
            return Fail('reconnect:gave-up-early', 'attempts %d limit %d' % (n_att, attempts))
    elif finals:
        return Fail('reconnect:final-disconnect-after-success', repr(finals))
    if c in socketio.base_client.reconnecting_clients:
        return Fail('reconnect:left-in-reconnecting-list', '')
    return None


# ---- flow: the real client on the fake engine.io, causes of loss, namespace refusals, second loss, shutdown -------------
class Net:
    """decides the outcome of every transport-level connection attempt"""

    def __init__(self, t):
        self.t = t
        self.outcomes = []

    def connect_outcome(self, eio):
        fail = len(self.outcomes) > 0 and self.t.bool()      # the very first connection always works
        self.outcomes.append('fail' if fail else 'ok')
        return engineio.exceptions.ConnectionError('Connection refused by the server') if fail else None


def h_flow(t, part):
    asyncio_ = part['async']
    recon = part['reconnection']
    net = Net(t)
    ev = []
    rs = RandomStub(t)

    slow = part.get('slow_disconnect_handler', False)

    def mk(kind, ns):
        if asyncio_:
            async def f(*a):
                ev.append((kind, ns) + a)
                if slow and kind == 'disconnect':
                    # the handler is suspended for a long time: whatever else is runnable runs first
                    await miniloop.checkpoint('slow disconnect handler')
        else:
            def f(*a):
                ev.append((kind, ns) + a)
                if slow and kind == 'disconnect':
                    # (threaded: the background tasks that exist at this moment run to their end while the handler is
                    # pre-empted)
                    w.eio.run_bg()
        return f
    with notrace():
        w = worlds.CWorld(asyncio_, world=net, reconnection=recon, reconnection_attempts=2, reconnection_delay=1,
                          reconnection_delay_max=5, randomization_factor=0.5)
        for ns in NSS:
            w.c.on('connect', mk('connect', ns), namespace=ns)
            w.c.on('disconnect', mk('disconnect', ns), namespace=ns)
    answered = {'n': 0, 'script': []}
    serving = {'on': True}
    dropped = {'v': False}
    efforts = {'n': 0}

    def serve_connects():
        """the server answers the CONNECT packets it has received so far (accept / refuse, from the tape)"""
        did = False
        if not serving['on']:
            return did
        for p in w.take():
            if isinstance(p, tuple) or p.packet_type != packet.CONNECT:
                continue
            ns = p.namespace or '/'
            k = t.choice(3 if not dropped['v'] else 2) if answered['n'] >= 2 else 0     # the initial connection is accepted
            refuse = k == 1
            answered['n'] += 1
            if k == 2:
                # the transport comes up and is lost again before the server has answered (during an attempt)
                dropped['v'] = True
                answered['script'].append((ns, 'drop'))
                yield 'DROP'
                return did
            answered['script'].append((ns, 'refuse' if refuse else 'accept'))
            did = True
            if refuse:
                pk = w.P(packet.CONNECT_ERROR, data={'message': 'no'}, namespace=ns)
            else:
                w.nsid += 1
                pk = w.P(packet.CONNECT, data={'sid': 'sid%d' % w.nsid}, namespace=ns)
            yield worlds.encode_frames(pk)[0]
        return did

    real_hr = w.c._handle_reconnect
    if asyncio_:
        async def _handle_reconnect(*a, **kw):      # (same name: the harness recognises the effort's task by it)
            efforts['n'] += 1
            return await real_hr(*a, **kw)
    else:
        def _handle_reconnect(*a, **kw):
            efforts['n'] += 1
            return real_hr(*a, **kw)
    w.c._handle_reconnect = _handle_reconnect
    mod = socketio.async_client if asyncio_ else socketio.client
    saved_random = mod.random
    mod.random = rs
    waits = []
    try:
        if asyncio_:
            w.drv.loop.max_steps = 2000
            stop = {'v': False}

            async def server():
                while not stop['v']:
                    await miniloop._Suspend('cond', lambda: stop['v'] or (serving['on'] and len(w.eio.out) > w.pos), None, 'server idle')
                    for fr in serve_connects():
                        if fr == 'DROP':
                            await w.eio.lose()
                            break
                        await w.eio.recv(fr)
            miniloop.create_task(server(), 'server')
            run = w.call
        else:
            def hook(event, timeout):
                if event is getattr(w.c, '_reconnect_abort', None):
                    waits.append(timeout)
                    if part.get('shutdown_at') == len(waits):
                        event.set()                     # shutdown() sets the abort event during this back-off wait
                    return
                for fr in serve_connects():
                    if fr == 'DROP':
                        w.eio.lose()
                        break
                    w.eio.recv(fr)
            waithook.HOOK[0] = hook
            run = w.call
        early = part.get('early_loss', False)
        serving['on'] = not early
        run(w.c.connect('http://h', namespaces=NSS, auth={'k': 1}, headers={'x': 'y'}, transports=['polling'],
                        socketio_path='sp', wait=not early, wait_timeout=1))
        if not w.c.connected:
            return Fail('reconnect:flow:initial-connect-failed', repr(answered))
        if early:
            # the transport is lost before the server has answered any CONNECT packet
            w.take()
            answered['n'] = 2
        first_attempts = len(w.eio.connects)
        del ev[:]
        if part.get('half_binary'):
            # the connection is lost in the middle of a binary event: header and first attachment have arrived
            with notrace():
                w.c.on('bin', mk('bin', '/'), namespace='/')
                w.c.on('ping', mk('ping', '/'), namespace='/')
            frames = worlds.encode_frames(w.P(packet.EVENT, data=['bin', b'first', b'second'], namespace='/'))
            for fr in frames[:2]:
                run(w.eio.recv(fr))
        # ---- the connection ends, by one of four causes -------------------------------------------------------
        cause = part['cause']
        if cause == 'transport-error':
            run(w.eio.lose())
            serving['on'] = True
        elif cause == 'client-disconnect':
            run(w.c.disconnect())
        elif cause == 'server-disconnect-namespaces':
            for ns in NSS:
                w.send(w.P(packet.DISCONNECT, namespace=ns))
        else:
            run(w.eio.server_close())
        accidental = cause == 'transport-error'
        if asyncio_:
            tasks_started = [tk for tk in w.drv.loop.tasks if tk.name not in ('server',) and not tk.done_ and
                             getattr(tk.coro, 'cr_code', None) is not None and tk.coro.cr_code.co_name == '_handle_reconnect']
            started = len(tasks_started)
        else:
            started = len(w.eio.bg)
        if started != (1 if (accidental and recon) else 0):
            return Fail('reconnect:decision:%s:reconnection=%s:tasks=%d' % (cause, recon, started), '')
        t.reached('decision')
        if not (accidental and recon):
            if len(w.eio.connects) != first_attempts:
                return Fail('reconnect:attempt-without-cause', repr(w.eio.connects))
            return None
        # while the client waits to reconnect it is not connected to anything
        if w.c.connected or dict(w.c.namespaces):
            return Fail('reconnect:stale-state-during-back-off', 'after the loss: connected=%r namespaces=%r' % (
                w.c.connected, dict(w.c.namespaces)))
        # ---- run the reconnection effort -------------------------------------------------------------------------
        if asyncio_:
            # abort / timeouts of the back-off wait: FIFO order means the wait times out (nobody sets the event)
            w.drv.loop.run_until(lambda: all(tk.done_ for tk in tasks_started))
        else:
            w.eio.run_bg()
        attempts = w.eio.connects[first_attempts:]
        if not asyncio_:
            w.eio.run_bg()
        if part.get('half_binary') and any(e_[0] == 'bin' for e_ in ev):
            return Fail('reconnect:half-received-binary-event-survives', 'the event that was half received when the connection was '
                        'lost has been completed with frames of a later connection: %r' % ([e_ for e_ in ev if e_[0] == 'bin'],))
        if efforts['n'] != 1:
            return Fail('reconnect:concurrent-efforts=%d' % efforts['n'], 'script %r' % (answered['script'],))
        for a in attempts:
            if a != ('http://h', {'x': 'y'}, ['polling'], 'sp'):
                return Fail('reconnect:flow:attempt-parameters', repr(a))
        if part.get('shutdown_at'):
            if len(attempts) != part['shutdown_at'] - 1:
                return Fail('reconnect:attempt-after-shutdown', 'aborted at wait %d, %d attempts' % (part['shutdown_at'], len(attempts)))
            return None
        if len(attempts) > 2:
            return Fail('reconnect:too-many-attempts', repr(attempts))
        if dropped['v']:
            return None
        if w.c.connected:
            # success: the connect handlers ran again for every namespace, sids are the new ones
            news = [e for e in ev if e[0] == 'connect']
            # the final, successful attempt accepted both namespaces: each connect handler ran for it
            final_conn = [e[1] for e in news][-2:]
            if dropped['v']:
                pass        # after a drop the bookkeeping of which attempt accepted what is not compared
            elif sorted(final_conn) != ['/', '/a']:
                return Fail('reconnect:connect-handlers-after-success', 'connect handler calls %r, script %r' % (news, answered['script']))
            sids = {ns: w.c.get_sid(ns) for ns in NSS}
            want = {}
            k = 0
            for ns, what in answered['script']:
                k += 1 if what == 'accept' else 0
                if what == 'accept':
                    want[ns] = 'sid%d' % k
            if sids != want and not early and not dropped['v']:
                return Fail('reconnect:stale-sid-after-reconnect', 'client has %r, server issued %r last' % (sids, want))
            if part.get('half_binary'):
                # nothing of the half-received event is left: the first event of the new connection is just that
                del ev[:]
                w.send(w.P(packet.EVENT, data=['ping', 1], namespace='/'))
                if ev != [('ping', '/', 1)]:
                    return Fail('reconnect:half-received-binary-event-survives', 'first event of the new connection: handlers saw %r' % (ev,))
            # a further loss right after the success starts exactly one new effort
            if not asyncio_:
                run(w.eio.lose())
                if len(w.eio.bg) != 1:
                    return Fail('reconnect:second-loss-tasks=%d' % len(w.eio.bg), '')
        else:
            if len(attempts) != 2:
                return Fail('reconnect:gave-up-early', 'attempts that reached the transport: %r' % (attempts,))
            if part.get('again'):
                # the effort gave up; later the application connects the same client again by hand, and that
                # connection is lost accidentally as well: a new effort is due
                answered['n'] = 0               # (the hand-made connection is accepted on both namespaces)
                try:
                    run(w.c.connect('http://h', namespaces=NSS, auth={'k': 1}, headers={'x': 'y'}, transports=['polling'],
                                    socketio_path='sp', wait=True, wait_timeout=1))
                except exceptions.ConnectionError:
                    return None
                if not w.c.connected:
                    return None
                t.reached('connected again after an effort that gave up')
                run(w.eio.lose())
                if asyncio_:
                    started2 = len([tk for tk in w.drv.loop.tasks if tk.name not in ('server',) and not tk.done_ and
                                    getattr(tk.coro, 'cr_code', None) is not None
                                    and tk.coro.cr_code.co_name == '_handle_reconnect'])
                else:
                    started2 = len(w.eio.bg)
                if started2 != 1:
                    return Fail('reconnect:decision:transport-error-after-an-effort-that-gave-up:tasks=%d' % started2,
                                '_reconnect_task=%r' % (w.c._reconnect_task,))
        return None
    finally:
        mod.random = saved_random
        waithook.HOOK[0] = None
        if asyncio_:
            stop['v'] = True
            try:
                w.drv.loop.max_steps += 500
                w.drv.finish()
            except Exception:
                pass
        if w.c in socketio.base_client.reconnecting_clients:
            socketio.base_client.reconnecting_clients.remove(w.c)


def kernel_parts(tier):
    K = 5 if tier == 'quick' else 8
    return [{'async': a, 'K': K, 'attempts': n} for a in (False, True) for n in range(4)] + \
           [{'async': a, 'K': 3, 'attempts': n, 'ctor': True} for a in (False, True) for n in (0, 2)]


def flow_parts(tier):
    out = []
    for a in (False, True):
        for cause in ('transport-error', 'client-disconnect', 'server-disconnect-namespaces', 'server-close'):
            for rc in (True, False):
                out.append({'async': a, 'cause': cause, 'reconnection': rc})
        for sh in (1, 2):
            if not a:
                out.append({'async': a, 'cause': 'transport-error', 'reconnection': True, 'shutdown_at': sh})
        out.append({'async': a, 'cause': 'transport-error', 'reconnection': True, 'early_loss': True})
        out.append({'async': a, 'cause': 'transport-error', 'reconnection': True, 'slow_disconnect_handler': True})
        out.append({'async': a, 'cause': 'transport-error', 'reconnection': True, 'again': True})
        out.append({'async': a, 'cause': 'transport-error', 'reconnection': True, 'half_binary': True})
    return out


CHECKS = [
    dict(name='backoff-kernel', fn=h_kernel, parts=kernel_parts, budget={'quick': 180, 'thorough': 600}, per_path_s=30),
    dict(name='decision-and-flow', fn=h_flow, parts=flow_parts, budget={'quick': 180, 'thorough': 300}, per_path_s=30),
]

META = dict(
    explanation='Kernel: the real Client/AsyncClient._handle_reconnect with connect() and the abort wait replaced by '
                'nondeterministic stubs; reconnection_delay, reconnection_delay_max, randomization_factor and every '
                'random() draw are symbolic reals, the attempt limit, the failure pattern and the abort position are tape '
                'choices; z3 decides |w_k - min(d*2^(k-1), max)| <= factor on every path, together with the attempt '
                'count, the pairing of waits and attempts, the parameters of every attempt and the final notification. '
                'Flow: the real client on the fake engine.io with the real connect(): which of four causes of loss starts '
                'an effort, transport-level and namespace-level failures of attempts, the connect handlers and session ids '
                'after a successful reconnection, a second loss, shutdown during the back-off.',
    bounds={'quick': 'kernel: up to 5 waits; delay in [0.1,4], max in [0.1,8], factor in [0,1], random in [0,1), limit in '
                     '{0,1,2,3}; flow: limit 2, 2 namespaces, every pattern of transport failure and namespace refusal',
            'thorough': 'kernel: up to 8 waits'},
    outside=['IEEE rounding (floats are modelled as reals; the bound is checked with a 1e-9 slack)', 'wall-clock time',
             'the asyncio shutdown path in the flow (the kernel covers abort for both clients)'],
    stubs=['random.random -> symbolic real in [0,1)', 'engine.io client -> FakeEioClient/FakeAEioClient',
           'Event.wait -> vf.waithook (server answers arrive while connect() waits)', 'asyncio -> vf.miniloop',
           'kernel: connect() and the abort wait are nondeterministic stubs'],
    assumptions=['Python floats behave like reals up to 1e-9 on these magnitudes'],
)
