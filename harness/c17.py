"""C17 Class-based namespace helpers use their own namespace, forward every argument."""
import inspect

import socketio

from vf import worlds, miniloop
from vf.tape import Fail, notrace

PROPERTY = 'C17'

SERVER_HELPERS = ['emit', 'send', 'call', 'enter_room', 'leave_room', 'close_room', 'rooms', 'get_session',
                  'save_session', 'session', 'disconnect']
CLIENT_HELPERS = ['emit', 'send', 'call', 'disconnect']
CLASSES = {
    'Namespace': (socketio.Namespace, socketio.Server, SERVER_HELPERS),
    'AsyncNamespace': (socketio.AsyncNamespace, socketio.AsyncServer, SERVER_HELPERS),
    'ClientNamespace': (socketio.ClientNamespace, socketio.Client, CLIENT_HELPERS),
    'AsyncClientNamespace': (socketio.AsyncClientNamespace, socketio.AsyncClient, CLIENT_HELPERS),
}
RET = object()
# the property excludes ClientNamespace.send's vestigial `room` parameter (2nd position): no positional arguments after
# the first for that one helper
VESTIGIAL = {('ClientNamespace', 'send'): 1}


def h(t, part):
    cname, helper = part['cls'], part['helper']
    nscls, target_cls, _ = CLASSES[cname]
    real = getattr(target_cls, helper)
    sig = inspect.signature(real)
    params = [p for p in list(sig.parameters.values())[1:]]     # without self
    required = [p.name for p in params if p.default is inspect.Parameter.empty]
    optional = [p.name for p in params if p.default is not inspect.Parameter.empty]
    is_coro = inspect.iscoroutinefunction(real)
    calls = []

    outcome = part.get('outcome', 'object')      # what the underlying method does: return a value / raise
    if outcome == 'any':
        ocs = ['empty-dict', 'none', 'raises', 'raises-typeerror'] + (['cancelled'] if cname.startswith('Async') else [])
        outcome = ocs[t.choice(len(ocs))]
    RETV = {'object': RET, 'empty-dict': {}, 'empty-list': [], 'none': None, 'zero': 0}.get(outcome, RET)

    class Oops(Exception):
        pass

    def record(*a, **kw):
        ba = sig.bind(None, *a, **kw)
        d = dict(ba.arguments)
        d.pop('self', None)
        calls.append(d)
        if outcome == 'raises':
            raise Oops('from the underlying method')
        if outcome == 'raises-typeerror':
            # what the underlying method raises for a payload that cannot be serialised
            raise TypeError('Object of type set is not JSON serializable')
        if outcome == 'cancelled':
            import asyncio
            raise asyncio.CancelledError()
        return RETV

    async def arecord(*a, **kw):
        return record(*a, **kw)

    class Recorder:
        # state a helper might be tempted to look at: the helpers are also called from connect / connect_error handlers,
        # i.e. while the connection is still being set up
        connected = False
        namespaces = {}
        eio = None
    rec = Recorder()
    setattr(rec, helper, arecord if is_coro else record)
    # ---- which arguments are given, how, and with which values ---------------------------------------------------
    hsig = inspect.signature(getattr(nscls, helper))
    hnames = set(list(hsig.parameters)[1:])
    under = [p.name for p in params]
    # arguments are given in the underlying method's order (the documented API), as far as the helper offers them
    names = [n for n in under if n in hnames]
    maxpos = 0
    for n in under:
        if n not in hnames:
            break
        maxpos += 1
    if (cname, helper) in VESTIGIAL:
        maxpos = min(maxpos, VESTIGIAL[(cname, helper)])
    if 'npos' in part:
        t.force([part['npos']])
    npos = t.choice(maxpos + 1)
    REG = part.get('reg', '/registered')
    ns = nscls(REG)
    rebound = npos % 2 == 1  # the object was registered with another server/client before (app factory called twice)
    for target in ([Recorder()] if rebound else []) + [rec]:
        if 'Client' in cname:
            ns._set_client(target)
        else:
            ns._set_server(target)
    given = {}
    for i, n in enumerate(names):
        if i < npos or n in required or (not part.get('minimal') and t.bool()):
            if n == 'namespace':
                given[n] = ['/other', None, '', '/'][t.choice(4)] if i >= npos else ['/other', '/'][npos % 2]
            elif n == 'callback':
                given[n] = [None, record][t.choice(2)]
            elif n == 'data':
                k = t.choice(3)
                given[n] = t.int(-1, 1) if k == 0 else '' if k == 1 else []
            else:
                given[n] = t.int(-1, 1)
    # positional arguments must form a prefix: every name before npos is given
    args = [given[n] for n in names[:npos]]
    kwargs = {n: v for n, v in given.items() if n not in names[:npos]}
    drv = worlds.AsyncDriver() if (is_coro or 'Async' in cname) else worlds.SyncDriver()
    raised = None
    try:
        ret = drv.call(getattr(ns, helper)(*args, **kwargs))
    except TypeError as e:
        if outcome == 'raises-typeerror' and 'JSON serializable' in str(e):
            raised = 'TypeError'
        else:
            return Fail('helper:%s.%s:rejects-arguments' % (cname, helper), 'args %r kwargs %r: %r' % (args, kwargs, e))
    except Oops as e:
        raised = 'Oops'
    except BaseException as e:      # noqa: asyncio.CancelledError must pass through like any other outcome
        if type(e).__name__ != 'CancelledError':
            raise
        raised = 'CancelledError'
    if outcome in ('raises', 'cancelled', 'raises-typeerror'):
        t.reached('helper')
        want = {'raises': 'Oops', 'raises-typeerror': 'TypeError'}.get(outcome, 'CancelledError')
        if len(calls) != 1:
            return Fail('helper:%s.%s:calls=%d:after-%s' % (cname, helper, len(calls), want),
                        'the underlying method raised %s; it was called %d times: %r' % (want, len(calls), calls))
        if raised != want:
            return Fail('helper:%s.%s:exception-not-propagated' % (cname, helper), 'the method raised %s, the helper %s' % (
                want, 'raised ' + raised if raised else 'returned %r' % (ret,)))
        return None
    t.reached('helper')
    t.note(cname, helper, 'positional', npos, 'given', sorted(given))
    if len(calls) != 1:
        return Fail('helper:%s.%s:calls=%d' % (cname, helper, len(calls)), repr(calls))
    got = calls[0]
    for n, v in given.items():
        if n == 'namespace':
            continue
        if n not in got:
            return Fail('helper:%s.%s:dropped:%s' % (cname, helper, n), 'given %r, underlying method received %r' % (given, got))
        gv = got[n]
        same = (gv is v) or (type(gv) is type(v) and gv == v) or (isinstance(v, int) and not isinstance(v, bool)
                                                                   and isinstance(gv, int) and gv == v)
        if not same:
            return Fail('helper:%s.%s:changed:%s' % (cname, helper, n), 'caller gave %r, method received %r' % (v, gv))
    if 'namespace' in names:
        want = given.get('namespace') or REG
        if got.get('namespace') != want:
            return Fail('helper:%s.%s:namespace' % (cname, helper), 'caller gave %r, method received %r (registered for '
                        '%s)' % (given.get('namespace', '<omitted>'), got.get('namespace'), REG))
    if ret is not RETV:
        return Fail('helper:%s.%s:return' % (cname, helper), 'the method returned %r (id %d), the helper %r (id %d)' % (
            RETV, id(RETV), ret, id(ret)))
    # a later call without a namespace still means the registration namespace (an earlier override must not stick)
    if 'namespace' in names and given.get('namespace'):
        del calls[:]
        req = [given[n] for n in names if n in required]
        try:
            drv.call(getattr(ns, helper)(*req))
        except TypeError as e:
            return Fail('helper:%s.%s:rejects-arguments' % (cname, helper), 'second call %r: %r' % (req, e))
        if len(calls) != 1 or calls[0].get('namespace') != REG:
            return Fail('helper:%s.%s:namespace-override-sticks' % (cname, helper), 'after an explicit namespace=%r a call without '
                        'namespace reached %r' % (given.get('namespace'), calls))
    return None


def parts(tier):
    out = []
    for c, (nscls, _, hs) in CLASSES.items():
        for hn in hs:
            n = len(inspect.signature(getattr(nscls, hn)).parameters) - 1
            if n > 5:
                out += [{'cls': c, 'helper': hn, 'npos': k} for k in range(n + 1)]
            else:
                out.append({'cls': c, 'helper': hn})
            # results and exceptions pass through unchanged (incl. falsy results and cancellation)
            out.append({'cls': c, 'helper': hn, 'outcome': 'any', 'minimal': True})
            # other registrations: the catch-all object and a nested path
            for reg in ('*', '/a/b'):
                out.append({'cls': c, 'helper': hn, 'reg': reg, 'minimal': True})
    return out


CHECKS = [dict(name='helpers', fn=h, parts=parts, budget={'quick': 180, 'thorough': 300}, per_path_s=15)]

META = dict(
    explanation='Every helper of the four namespace classes is called on an object registered for "/registered" whose '
                'server/client is a recorder with the signature read from the real Server/Client class of the current '
                'tree; which optional arguments are given, how many positionally, and their values (symbolic ints around '
                '0, empty and non-empty strings and containers, explicit falsy namespaces) come from the tape; the '
                'recorded binding must equal what the caller gave, with the registration namespace as default.',
    bounds={'quick': 'all helpers x every subset of the helper\'s optional arguments x every positional prefix x '
                     'values: symbolic int -1..1 per argument (the solver picks 0 where falsiness matters), data also "" '
                     'and [], callback None or a function, namespace "/other", None or ""', 'thorough': 'same'},
    outside=['defaults of omitted arguments other than namespace', 'parameters of a helper that the underlying method '
             'does not have (ClientNamespace.send room) and positional arguments from there on',
             'parameters of the underlying method that the helper does not offer (Server.disconnect ignore_queue is not '
             'offered by Namespace.disconnect: observation, not claimed either way)'],
    stubs=['the server/client is a recorder (the claim is about forwarding, not about what the method then does)'],
    assumptions=[],
)
