"""C12 Hostile input from one client cannot touch other clients or stop the server."""
import time

import z3

from socketio import packet
from vf import worlds, bsx
from vf.tape import Fail, notrace
from harness import c01

PROPERTY = 'C12'
BIG = 10 ** 20

DATA_PALETTE = [None, 7, 'str', {'a': 1}, [], [7], ['ev'], ['ev', 1], ['connect'], ['disconnect', 'x'], ['ev', {'_placeholder': True, 'num': 5}],
                [['ev']], [None], ['ev', {'_placeholder': True, 'num': 0}], {'_placeholder': True, 'num': 0}]
PH0 = {'_placeholder': True, 'num': 0}
# (id kind, payload, declared attachment count, binary frames that follow)
BAD_INDEX = ['ev', {'_placeholder': True, 'num': 5}]
STAR_EVENT = ['*', 'a-bystander-sid', 'x']      # an event named like the wildcard; the sid is filled in at run time
COMBOS = [(None, None, 0, 0), (None, ['ev', 1], 0, 0), ('sym', ['ev', 1], 0, 0), ('big', ['ev'], 0, 0), ('sym', [7], 0, 0),
          (None, 'str', 0, 0), (None, {'a': 1}, 0, 0), ('sym', [], 0, 0), (None, ['ev', PH0], 1, 1),
          ('sym', BAD_INDEX, 1, 1), (None, ['ev', PH0], 2, 1), (None, ['connect'], 0, 0),
          (None, ['disconnect', 'x'], 0, 0), (None, [['ev']], 0, 0), ('sym', PH0, 1, 2), (None, STAR_EVENT, 0, 0),
          (None, ['ev', PH0], 3000000, 0), ('sym', ['ev', PH0], 3000000, 1)]
SMALL_COMBOS = [COMBOS[i] for i in (2, 4, 8, 10)]
MALFORMED = ['x', '2', '9', '51-', '2/a', '3', '0/zz,', '4"no"', '2[', '-1', '61-/a,3']


def bystander_view(w, by):
    """everything observable about the bystanders"""
    out = {}
    for e, ns, sid in by:
        out[sid] = dict(rooms=sorted(map(str, w.s.rooms(sid, ns))), connected=w.s.manager.is_connected(sid, ns),
                        session=dict(w.eio.t[e].session.get(ns, {})), callbacks=sorted(w.s.manager.callbacks.get(sid, {})),
                        outbox=len(w.frames(e)), environ=w.s.get_environ(sid, ns))
    return out


def h_flow(t, part):
    asyncio_ = part['async']
    calls = []
    cb_fired = []

    during = {'armed': False, 'n': 0, 'served': 0, 'by': ()}

    def mk(kind, ret=None):
        # while a handler runs for the offender, a bystander's event arrives and is processed to the end (threaded: the
        # bystander's transport thread; asyncio: its task while this handler is suspended)
        if asyncio_:
            async def f(sid, *a):
                calls.append((kind, sid, a))
                if during['armed'] and sid not in during['by']:
                    during['n'] += 1
                    n0 = len(calls)
                    await w.eio.recv('e1', during['frame'])
                    if calls[n0:] == [('ev', during['by'][0], ('during',))]:
                        during['served'] += 1
                return ret
        else:
            def f(sid, *a):
                calls.append((kind, sid, a))
                if during['armed'] and sid not in during['by']:
                    during['n'] += 1
                    n0 = len(calls)
                    w.eio.recv('e1', during['frame'])
                    if calls[n0:] == [('ev', during['by'][0], ('during',))]:
                        during['served'] += 1
                return ret
        return f

    def catch_all():
        # documented signature of a catch-all event handler: (event, sid, *data)
        if asyncio_:
            async def f(event, sid, *a):
                calls.append(('catch-all', sid, (event,) + a))
        else:
            def f(event, sid, *a):
                calls.append(('catch-all', sid, (event,) + a))
        return f

    with notrace():
        w = worlds.SWorld(asyncio_, async_handlers=False)
        for ns in ('/', '/a'):
            w.s.on('connect', mk('connect'), namespace=ns)
            w.s.on('ev', mk('ev', 'r'), namespace=ns)
            w.s.on('disconnect', mk('disconnect'), namespace=ns)
            w.s.on('*', catch_all(), namespace=ns)
        for e in ('e0', 'e1', 'e2'):
            w.open(e)
        off_sid = w.connect('e0', '/')
        b1 = w.connect('e1', '/')
        b2 = w.connect('e2', '/a')
        by = [('e1', '/', b1), ('e2', '/a', b2)]
        w.call(w.s.enter_room(b1, 'r'))
        w.call(w.s.save_session(b1, {'who': 'b1'}))
        w.call(w.s.save_session(b2, {'who': 'b2'}, namespace='/a'))
        w.call(w.s.emit('q', 1, to=b1, callback=lambda *a: cb_fired.append(('b1', a))))
        w.call(w.s.emit('q', 1, to=b2, namespace='/a', callback=lambda *a: cb_fired.append(('b2', a))))
        for e in ('e0', 'e1', 'e2'):
            w.take(e)
        del calls[:]
        during['by'] = (b1, b2)
        during['frame'] = worlds.encode_frames(w.P(packet.EVENT, data=['ev', 'during'], namespace='/'))[0]
    if 'first' in part:
        t.force(part['first'] if isinstance(part['first'], list) else [part['first']])
    hostile_undecodable = 0
    bin_sent = 0
    for step in range(part['n']):
        bfr = worlds.encode_frames(w.P(packet.EVENT, data=['ev', b'bystander-bytes'], namespace='/a'))
        straddle = part.get('straddle', True)
        if straddle:
            w.recv('e2', bfr[0])        # a bystander is in the middle of a binary event while the offender acts
        before = bystander_view(w, by)
        ncalls = len(calls)
        own_before = {w.sid('e0', n) for n in ('/', '/a')} - {None}
        pending_before = 'e0' in w.s._binary_packet      # an earlier header of the offender still waits for attachments
        kind = t.choice(3)
        undecodable = False
        during['armed'] = True
        if kind == 0:
            # a decoded packet with arbitrary fields
            small = part.get('palette') == 'small'
            ptype = [0, 2, 3, 5][t.choice(4)] if small else t.choice(10) - 1
            nss = [None, '/a'] if small else [None, '/', '/a', '/zz', 'sym']
            ns = nss[t.choice(len(nss))]
            if ns == 'sym':
                ns = t.str(3)
            combos = SMALL_COMBOS if small else COMBOS
            idk, data, count, extra = combos[t.choice(len(combos))]
            pid = None if idk is None else BIG if idk == 'big' else t.int(0, 3)
            if data is STAR_EVENT:
                data = ['*', b1, 'x']
            w.recv('e0', w.P.inject(type=ptype, namespace=ns, id=pid, data=data, count=count))
            for _ in range(extra):
                w.recv('e0', b'\x00\x01')
        elif kind == 1:
            stray = [b'stray-binary-frame', b'1', b'0', b'5', b''][t.choice(5)]
            w.recv('e0', stray)
        else:
            undecodable = True
            hostile_undecodable += 1
            w.recv('e0', MALFORMED[t.choice(len(MALFORMED))])
        during['armed'] = False
        if during['served'] != during['n']:
            return Fail('hostile:bystander-not-served-during-offenders-handler', 'a bystander event that arrived while a handler '
                        'was running for the offender was not dispatched; handlers ran %r' % (calls[ncalls:],))
        bin_sent += (1 + extra) if kind == 0 else 1      # every frame may end up as an attachment of a pending header
        held = w.s._binary_packet.get('e0')
        if held is not None and len(held.attachments) > bin_sent:
            # (the pending header may stem from an earlier step: the bound is what the offender has sent altogether)
            return Fail('hostile:resources-in-proportion-to-declared-count', 'the offender has sent %d frames so far; the server '
                        'holds a pending packet with %d attachment slots (declared count %r)' % (
                            bin_sent, len(held.attachments), held.attachment_count))
        new_calls = [c for c in calls[ncalls:] if c != ('ev', b1, ('during',))]
        own = ({w.sid('e0', n) for n in ('/', '/a')} - {None}) | own_before      # the offender's sessions before or after
        bad = [c for c in new_calls if c[1] not in own]
        if bad:
            return Fail('hostile:handler-ran-for-%s' % ('bystander' if [c for c in bad if c[1] in (b1, b2)] else 'nobody'),
                        'the offender holds %r; handlers ran %r' % (sorted(own), bad))
        if kind == 0 and data is BAD_INDEX and ptype in (5, 6) and new_calls and not pending_before:
            return Fail('hostile:undecodable-input-reached-handler:placeholder-index', repr(new_calls))
        if kind == 1 and not pending_before and new_calls:
            return Fail('hostile:undecodable-input-reached-handler:stray-binary', 'frame %r ran %r' % (stray, new_calls))
        if undecodable and part.get('strict_undecodable'):
            pass
        after = bystander_view(w, by)
        if after != before:
            diff = {k: (before[k], after[k]) for k in before if before[k] != after[k]}
            comp = sorted({f for k in diff for f in diff[k][0] if diff[k][0][f] != diff[k][1][f]})
            return Fail('hostile:bystander-changed:%s' % ','.join(comp), repr(diff))
        if cb_fired:
            return Fail('hostile:bystander-callback-fired', repr(cb_fired))
        # the bystander's binary event completes now
        nb = len(calls)
        if not straddle:
            w.recv('e2', bfr[0])        # (without straddling: the bystander's whole binary event comes after the offender's frames)
        w.recv('e2', bfr[1])
        if calls[nb:] != [('ev', b2, (b'bystander-bytes',))]:
            return Fail('hostile:bystander-binary-event-lost', 'after step %d: %r; contained %r' % (step, calls[nb:], w.eio.contained[-2:]))
        # bystander traffic in between
        w.send('e1', w.P(packet.EVENT, data=['ev', step], namespace='/'))
        if [c for c in calls[len(calls) - 1:]] != [('ev', b1, (step,))]:
            return Fail('hostile:bystander-not-served', 'after step %d: %r' % (step, calls[-2:]))
    # sentinels: each bystander is still served exactly as before
    w.finish()
    for e, ns, sid in by:
        w.take(e)
        n0 = len(calls)
        w.send(e, w.P(packet.EVENT, data=['ev', 'sentinel'], namespace=ns, id=5))
        if calls[n0:] != [('ev', sid, ('sentinel',))]:
            return Fail('hostile:sentinel-dispatch', '%s: %r' % (sid, calls[n0:]))
        got = [worlds.pk(p) for p in w.take(e)]
        if got != [(packet.ACK, ns, 5, ['r'])]:
            return Fail('hostile:sentinel-ack', '%s: %r' % (sid, got))
    others = {e: len(w.frames(e)) for e in ('e0', 'e2')}
    w.call(w.s.emit('news', 1, room='r'))
    if [worlds.pk(p) for p in w.take('e1')] != [(packet.EVENT, '/', None, ['news', 1])] or \
            {e: len(w.frames(e)) for e in ('e0', 'e2')} != others:
        return Fail('hostile:sentinel-room-emit', '')
    w.send('e1', w.P(packet.ACK, data=['done'], namespace='/', id=1))
    w.send('e2', w.P(packet.ACK, data=['done'], namespace='/a', id=1))
    if cb_fired != [('b1', ('done',)), ('b2', ('done',))]:
        return Fail('hostile:sentinel-callback', repr(cb_fired))
    t.reached('hostile')
    return None


# ---- msgpack serializer: undecodable frames never reach a handler ------------------------------------------
def h_msgpack(t, part):
    import msgpack
    asyncio_ = part['async']
    calls = []

    def mk(kind):
        if asyncio_:
            async def f(sid, *a):
                calls.append((kind, sid, a))
        else:
            def f(sid, *a):
                calls.append((kind, sid, a))
        return f
    # the frame: a msgpack value chosen by the tape
    shape = t.choice(5)
    keys = []
    if shape == 0:
        present = [t.bool() for _ in range(4)]
        ptype = t.choice(5)                    # 0..3 and a string
        nspk = t.choice(4)
        value = {}
        if present[0]:
            value['type'] = [0, 1, 2, 3, 'x'][ptype]
        if present[1]:
            value['nsp'] = ['/', '/a', None, 5][nspk]
        if present[2]:
            value['data'] = [['ev', 1], {'a': 1}, None][t.choice(3)]
        if present[3]:
            value['id'] = 1
        decodable = present[0] and present[1]
    elif shape == 1:
        value = [7, [2, '/', ['ev']], 'text', None][t.choice(4)]
        decodable = False
    huge = t.choice(4) if shape == 4 else 0
    with notrace():
        if shape in (0, 1):
            frame = msgpack.dumps(value)
        elif shape == 2:
            frame = msgpack.dumps({'type': 2, 'nsp': '/', 'data': ['ev', 1]})[:-2]      # truncated
            decodable = False
        elif shape == 3:
            frame = b'\xc1\xff\x00'                                                      # never-used msgpack byte
            decodable = False
        else:
            # a few bytes that declare a huge container (array32 / map32 / bin32 headers): the frame is garbage, and the
            # memory taken while finding that out must be in proportion to the bytes received. This one is a concrete
            # measurement (tracemalloc), not a solver result: the allocation happens inside the msgpack C extension.
            frame = [b'\xdd\x00\x40\x00\x00', b'\xdf\x00\x40\x00\x00', b'\xc6\x00\x40\x00\x00',
                     b'\x92\x02\xdd\x00\x40\x00\x00'][huge]
            decodable = False
        w = worlds.SWorld(asyncio_, async_handlers=False, P='msgpack')
        for ns in ('/', '/a'):
            w.s.on('connect', mk('connect'), namespace=ns)
            w.s.on('ev', mk('ev'), namespace=ns)
            w.s.on('disconnect', mk('disconnect'), namespace=ns)
        for e in ('e0', 'e1', 'e9'):
            w.open(e)
        pc = w.s.packet_class
        w.recv('e0', pc(packet.CONNECT, namespace='/').encode())
        w.recv('e1', pc(packet.CONNECT, namespace='/').encode())
        b1 = w.sid('e1', '/')
        w.call(w.s.emit('q', 1, to=w.sid('e0', '/'), callback=lambda *a: calls.append(('callback', None, a))))
        del calls[:]
        before = (sorted(map(str, w.s.rooms(b1))), len(w.frames('e1')))
        sender = 'e9' if part['stranger'] else 'e0'       # a transport that never joined anything / the offender
        import tracemalloc
        measure = shape == 4
        if measure:
            tracemalloc.start()
            tracemalloc.reset_peak()
            base = tracemalloc.get_traced_memory()[0]
        w.recv(sender, frame)
        w.finish()
        if measure:
            peak = tracemalloc.get_traced_memory()[1] - base
            tracemalloc.stop()
            if peak > 1 << 20:
                return Fail('hostile:memory-in-proportion-to-declared-count:msgpack', 'a frame of %d bytes (%r) made the server '
                            'allocate %d bytes while decoding it' % (len(frame), frame, peak))
        if not decodable and calls:
            return Fail('hostile:undecodable-input-reached-handler:msgpack', 'frame %r (%r) from %s ran %r' % (
                frame, value if shape < 2 else 'garbage', sender, calls))
        if [c for c in calls if c[1] == b1]:
            return Fail('hostile:handler-ran-for-bystander', repr(calls))
        after = (sorted(map(str, w.s.rooms(b1))), len(w.frames('e1')))
        if after != before:
            return Fail('hostile:bystander-changed:msgpack', '%r -> %r' % (before, after))
        n0 = len(calls)
        w.recv('e1', pc(packet.EVENT, data=['ev', 'sentinel'], namespace='/').encode())
        if calls[n0:] != [('ev', b1, ('sentinel',))]:
            return Fail('hostile:sentinel-dispatch:msgpack', repr(calls[n0:]))
    t.reached('msgpack')
    return None


# ---- (a) the decoder on arbitrary frames (bsx) --------------------------------------------------------------
INT_ARGS = []


def spy_int(x, *a):
    if isinstance(x, bsx.BStr):
        INT_ARGS.append(x.n)
    return bsx.shim_int(x, *a)


def h_decode(part):
    C = bsx.CTX
    kind = part['kind']
    L = part['L']
    if kind == 'arbitrary':
        F = bsx.BStr.sym('F')
        cls = part['cls']
        c0 = F.at(0)
        C.add({'empty': F.n == 0, 'digit': z3.And(F.n >= 1, bsx.z_isdigit(c0)),
               'other': z3.And(F.n >= 1, z3.Not(bsx.z_isdigit(c0)))}[cls])
    else:
        # long digit runs: concrete bulk, symbolic boundary
        bulk = part['bulk']
        tail = bsx.BStr.sym('T', maxlen=part['tail'])
        F = bsx.BStr.const(part['head']) + bsx.BStr.const('7' * bulk) + tail
    del INT_ARGS[:]
    loads_log = []
    P = c01.mk_packet_class(None, loads_log)
    packet.int = spy_int
    try:
        q = P(encoded_packet=F)
    except (bsx.Abort, bsx.BoundExceeded, bsx.Unsupported):
        raise
    except Exception as e:
        # rejection is fine; the resource clause still applies to what was done before rejecting
        conds = {'int-arg-len': z3.And(*[n <= 100 for n in INT_ARGS]) if INT_ARGS else z3.BoolVal(True)}
        return c01.final_query(C, conds, dict(F=F, rejected=type(e).__name__))
    conds = {'int-arg-len': z3.And(*[n <= 100 for n in INT_ARGS]) if INT_ARGS else z3.BoolVal(True)}
    ns = q.namespace
    if ns is not None:
        conds['namespace-domain'] = z3.And(ns.n >= 1, ns.at(0) == 47, ns.all_chars(lambda c: c != 44)) \
            if isinstance(ns, bsx.BStr) else z3.BoolVal(isinstance(ns, str) and ns.startswith('/') and ',' not in ns)
    if q.id is not None:
        conds['id-domain'] = z3.And(bsx.lift(q.id) >= 0, bsx.lift(q.id) < 10 ** 100)
    ac = q.attachment_count
    conds['count-domain'] = z3.And(bsx.lift(ac) >= 0, bsx.lift(ac) < 10 ** 10)
    if q.data is not None:
        conds['data-from-loads'] = z3.BoolVal(isinstance(q.data, tuple) and len(loads_log) == 1)
    return c01.final_query(C, conds, dict(F=F))


def replay_decode(c):
    F = c['F']
    seen = []
    orig = packet.__dict__.get('int')

    def spy(x, *a):
        if isinstance(x, str):
            seen.append(len(x))
        return int(x, *a)
    packet.int = spy
    log = []
    P = c01.mk_packet_class(None, log)
    try:
        try:
            q = P(encoded_packet=F) if F else None
        except Exception:
            q = None
    finally:
        if orig is None:
            del packet.int
        else:
            packet.int = orig
    if any(n > 100 for n in seen):
        return Fail('hostile:int-on-long-string', 'int() applied to %r characters for frame %r...' % (max(seen), F[:20]))
    if q is not None:
        if q.namespace is not None and (not q.namespace.startswith('/') or ',' in q.namespace):
            return Fail('hostile:decoded-namespace-domain', repr(q.namespace))
        if q.id is not None and not (0 <= q.id < 10 ** 100):
            return Fail('hostile:decoded-id-domain', repr(q.id)[:60])
        if not (0 <= q.attachment_count < 10 ** 10):
            return Fail('hostile:decoded-count-domain', repr(q.attachment_count)[:60])
    return None


def decode_parts(tier):
    L = 10 if tier == 'quick' else 12
    out = [dict(kind='arbitrary', L=L, cls=c) for c in ('empty', 'digit', 'other')]
    # id cap: '2' + 97..99 sevens + up to 4 symbolic characters; count cap: '5' + 8..9 sevens + up to 4 symbolic
    for bulk in ((98,) if tier == 'quick' else (97, 98, 99)):
        out.append(dict(kind='long', L=bulk + 6, head='2', bulk=bulk, tail=4))
    for bulk in ((9,) if tier == 'quick' else (8, 9, 10)):
        out.append(dict(kind='long', L=bulk + 8, head='5', bulk=bulk, tail=5))
    return out


_run, _replay = c01.run_bsx(h_decode, replay_decode)


def flow_parts(tier):
    out = []
    for a in (False, True):
        if tier == 'quick':
            out += [{'async': a, 'n': 1, 'palette': 'full', 'first': [0, ty]} for ty in range(10)]
            out += [{'async': a, 'n': 1, 'palette': 'full', 'first': f} for f in (1, 2)]
            out += [{'async': a, 'n': 2, 'palette': 'small', 'first': [0, ty]} for ty in range(4)]
            out += [{'async': a, 'n': 2, 'palette': 'small', 'first': f} for f in (1, 2)]
            # the same without a bystander's binary event straddling the offender's frames
            out += [{'async': a, 'n': 1, 'palette': 'full', 'first': [0, ty], 'straddle': False} for ty in range(10)]
            out += [{'async': a, 'n': 2, 'palette': 'small', 'first': [0, ty], 'straddle': False} for ty in range(4)]
        else:
            out += [{'async': a, 'n': 2, 'palette': 'full', 'first': [0, ty]} for ty in range(10)]
            out += [{'async': a, 'n': 2, 'palette': 'full', 'first': f} for f in (1, 2)]
            out += [{'async': a, 'n': 3, 'palette': 'small', 'first': [0, ty]} for ty in range(4)]
            out += [{'async': a, 'n': 3, 'palette': 'small', 'first': f} for f in (1, 2)]
            out += [{'async': a, 'n': 2, 'palette': 'full', 'first': [0, ty], 'straddle': False} for ty in range(10)]
    return out


CHECKS = [
    dict(name='msgpack-frames', fn=h_msgpack, parts=[{'async': a, 'stranger': st} for a in (False, True) for st in (False, True)],
         budget={'quick': 180, 'thorough': 120}),
    dict(name='bystanders', fn=h_flow, parts=flow_parts, budget={'quick': 180, 'thorough': 900}, per_path_s=20),
    dict(name='decoder-domain', engine='bsx', run=_run, replay=_replay, parts=decode_parts,
         budget={'quick': 180, 'thorough': 900}),
]

META = dict(
    engine='xh for the server flow, bsx for the decoder',
    explanation='(a) real Packet.decode on arbitrary bounded symbolic frames and on long digit runs with a symbolic '
                'boundary: whatever it returns lies in the field domain D and int() is never applied to more than 100 '
                'characters. (b) real _handle_eio_message of Server/AsyncServer fed decoded packets with symbolic fields '
                'drawn from D (type -1..8, namespace incl. unknown/bystander-only/symbolic, id, payload palette, '
                'attachment counts), stray binary frames and malformed text, on a server with two bystanders that have '
                'rooms, sessions and outstanding callbacks: no handler runs for a bystander, their observable state and '
                'outboxes do not change, and afterwards each bystander is served exactly as before (sentinels).',
    bounds={'quick': '1 offender frame from the full palette (type -1..8 x 5 namespaces x 15 id/payload/attachment '
                     'combinations, stray binary, 11 malformed texts) and 2 frames from a reduced palette (4 types x 2 namespaces x 4 combinations), interleaved '
                     'with bystander events; arbitrary frames <= 10 code points; id run of '
                     '98 concrete digits + 4 symbolic characters; count run of 9 + 5',
            'thorough': '2 full-palette / 3 reduced-palette offender frames; frames <= 12; digit runs 97..99 / 8..10'},
    outside=['memory taken inside the msgpack C extension is not a solver question: four concrete frames that declare 4 Mi-element containers are measured with tracemalloc (auxiliary concrete probe, stated as such)', 'the offender\'s own connection', 'the msgpack and JSON parsers themselves (C extensions / stdlib; msgpack '
             'frames are concrete values chosen by the solver from a palette of maps with missing / wrong-typed keys, '
             'non-maps and garbage)',
             'payloads outside the palette'],
    stubs=['engine.io server -> FakeEio/FakeAEio (contains exceptions)', 'JSON text -> TokJson / symbolic text',
           'hostile packets are injected at Packet.decode with fields from the decoder\'s proven output domain'],
    assumptions=['compositional: (a) shows decode output lies in D, (b) quantifies over D'],
)
