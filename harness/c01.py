"""C01 Packet codec: encode/decode round-trip and Socket.IO v5 wire conformance."""
import json as real_json
import time

import z3

from socketio import packet
from vf import bsx
from vf.tape import Fail, notrace

PROPERTY = 'C01'
BIN = (packet.BINARY_EVENT, packet.BINARY_ACK)


# ======================================================================================================
# RefCodec: written from the Socket.IO v5 protocol document
#   <type>[<n>-][<nsp>,][<id>][<json>]     (polymorphic over str and bsx.BStr)
# ======================================================================================================
class RefReject(Exception):
    pass


def _is_b(x):
    return isinstance(x, bsx.BStr)


def ascii_digits(s):
    if _is_b(s):
        return bsx.SBool(z3.And(s.n > 0, s.all_chars(bsx.z_ascii_digit)))
    return len(s) > 0 and all('0' <= ch <= '9' for ch in s)


def ascii_value(s):
    if _is_b(s):
        return bsx.SInt(s.decimal_value())
    return int(s)


def digit_run(s):
    """number of leading ASCII digits"""
    if _is_b(s):
        e = z3.IntVal(s.cap)
        for k in reversed(range(s.cap)):
            e = z3.If(z3.And(k < s.n, bsx.z_ascii_digit(s.c[k])), e, k)
        return bsx.SInt(z3.simplify(e))
    i = 0
    while i < len(s) and '0' <= s[i] <= '9':
        i += 1
    return i


def slen(s):
    return bsx.shim_len(s)


def ref_payload_ok(ptype, first):
    """first character of a JSON text acceptable as payload of this packet type"""
    if ptype in (packet.EVENT, packet.ACK, packet.BINARY_EVENT, packet.BINARY_ACK):
        return first == '['
    if ptype == packet.DISCONNECT:
        return False
    ok = False
    for ch in '[{"tfn':
        if first == ch:
            ok = True
            break
    return ok


def ref_decode(F):
    """returns dict(type, count, nsp, id, json) or raises RefReject"""
    if not F:
        raise RefReject('empty')
    ptype = None
    head = F[0:1]
    for k in range(7):
        if head == str(k):
            ptype = k
            break
    if ptype is None:
        raise RefReject('type')
    rest = F[1:]
    count = 0
    if ptype in BIN:
        d = rest.find('-')
        if d == -1:
            raise RefReject('binary packet without attachment count')
        digs = rest[0:d]
        if not ascii_digits(digs):
            raise RefReject('attachment count is not a decimal number')
        if d > 10:
            raise RefReject('attachment count beyond 10 digits (documented guard)')
        count = ascii_value(digs)
        rest = rest[d + 1:]
    nsp = None
    if rest[0:1] == '/':
        c = rest.find(',')
        if c == -1:
            nsp = rest
            rest = rest[slen(rest):]
        else:
            nsp = rest[0:c]
            rest = rest[c + 1:]
        q = nsp.find('?')
        if q != -1:
            nsp = nsp[0:q]
    pid = None
    if ascii_digits(rest[0:1]):
        i = digit_run(rest)
        if i > 100:
            raise RefReject('id beyond 100 digits (outside the quantifier: id < 10**100)')
        pid = ascii_value(rest[0:i])
        rest = rest[i:]
    js = None
    if rest:
        if not ref_payload_ok(ptype, rest[0:1]):
            raise RefReject('payload')
        js = rest
    elif ptype in (packet.EVENT, packet.ACK, packet.BINARY_EVENT, packet.BINARY_ACK):
        raise RefReject('event/ack without payload')
    return dict(type=ptype, count=count, nsp=nsp, id=pid, json=js)


def ref_encode(ptype, count, nsp, pid, js):
    out = str(ptype)
    if ptype in BIN:
        out = out + str(count) + '-'
    if nsp is not None and nsp != '/':
        out = out + nsp + ','
    if pid is not None:
        out = out + bsx.shim_str(pid)
    if js is not None:
        out = out + js
    return out


# ======================================================================================================
# harness plumbing
# ======================================================================================================
class Marker:
    pass


def mk_packet_class(J, loads_log):
    class SJ:
        @staticmethod
        def dumps(d, separators=None):
            assert separators == (',', ':'), 'compact separators expected'
            return J

        @staticmethod
        def loads(s):
            loads_log.append(s)
            return ('JSON', s)

    class P(packet.Packet):
        json = SJ
    return P


def sym_namespace(C, name='ns'):
    ns = bsx.BStr.sym(name, minlen=2)      # the one-character namespace '/' is the 'slash' partition
    C.add(ns.c[0] == 47, ns.all_chars(lambda c: c != 44))
    return ns


def first_char_in(C, J, chars):
    C.add(J.n >= 1, z3.Or(*[J.c[0] == ord(x) for x in chars]))


def bexpr(x):
    return x if z3.is_expr(x) else z3.BoolVal(bool(x))


# ---- H1: header round trip + wire conformance -------------------------------------------------------
def h1(part):
    C = bsx.CTX
    ptype = part['type']
    nsk = part['ns']
    ns = None if nsk == 'none' else '/' if nsk == 'slash' else sym_namespace(C)
    pid = None
    if part['id']:
        pid = bsx.SInt(z3.Int('pid'))
        C.add(pid.e >= 0)
    k = part.get('k', 0)
    has_data = part['data'] or ptype in BIN
    J = None
    if has_data:
        J = bsx.BStr.sym('J')
        first_char_in(C, J, '[' if ptype in (2, 3, 5, 6) else '[{"tfn')
    if ptype in BIN:
        data = ['e'] + [b'a%d' % i for i in range(k)]
    else:
        data = Marker() if has_data else None
    loads_log = []
    P = mk_packet_class(J, loads_log)
    p = P.__new__(P)
    p.packet_type, p.data, p.namespace, p.id = ptype, data, ns, pid
    p.attachment_count, p.attachments = 0, []
    enc = p.encode()
    atts = []
    if isinstance(enc, list):
        enc, atts = enc[0], enc[1:]
    if ptype in BIN:
        if atts != [b'a%d' % i for i in range(k)]:
            return ('violation', 'attachment list', dict(part=part))
    elif atts:
        return ('violation', 'attachments on a non-binary packet', dict(part=part))
    conds = {}
    # wire conformance: the frame is exactly the one the format prescribes
    ref = ref_encode(ptype, k, ns, pid, J)
    if isinstance(enc, str):
        conds['wire'] = bexpr(enc == ref) if isinstance(ref, str) else ref.eqe(enc)
    else:
        conds['wire'] = enc.eqe(ref)
    # decode
    q = P(encoded_packet=enc)
    qt = q.packet_type
    conds['type'] = qt.e == ptype if isinstance(qt, bsx.SInt) else bexpr(qt == ptype)
    exp_ns = None
    if isinstance(ns, bsx.BStr):
        qm = ns.find('?')
        exp_ns = ns if qm == -1 else ns[0:qm]
    if exp_ns is None:
        conds['namespace'] = bexpr(q.namespace is None)
    elif isinstance(q.namespace, bsx.BStr):
        conds['namespace'] = q.namespace.eqe(exp_ns)
    else:
        conds['namespace'] = z3.BoolVal(False)
    if pid is None:
        conds['id'] = bexpr(q.id is None)
    else:
        conds['id'] = q.id.e == pid.e if isinstance(q.id, bsx.SInt) else z3.BoolVal(False)
    if has_data:
        ok = isinstance(q.data, tuple) and len(loads_log) == 1
        conds['data'] = q.data[1].eqe(J) if ok and isinstance(q.data[1], bsx.BStr) else \
            bexpr(ok and isinstance(J, str) and q.data[1] == J)
    else:
        conds['data'] = bexpr(q.data is None and not loads_log)
    ac = q.attachment_count
    conds['count'] = ac.e == k if isinstance(ac, bsx.SInt) else bexpr(ac == k)
    return final_query(C, conds, dict(part=part, ns=ns, pid=pid, J=J))


XCHECK = {'left': 0, 'done': 0, 'agree': 0, 'disagree': [], 'inconclusive': 0}


def second_solver(C, neg):
    """re-decide this validity query with two independent solver binaries (/usr/bin/z3 4.8.12, cvc5 1.0.3) on the
    SMT-LIB2 dump; 'unsat' must be confirmed. Anything else than sat/unsat (timeout, (error ...)) is inconclusive."""
    import os
    import subprocess
    import tempfile
    C.solver.push()
    C.solver.add(neg)
    text = '(set-logic QF_LIA)\n' + C.solver.to_smt2()
    C.solver.pop()
    out = {}
    fd, path = tempfile.mkstemp(suffix='.smt2')
    try:
        with os.fdopen(fd, 'w') as f:
            f.write(text)
        for name, cmd in (('z3-4.8.12', ['/usr/bin/z3', '-T:40', path]), ('cvc5-1.0.3', ['cvc5', '--tlimit=40000', path])):
            try:
                p = subprocess.run(cmd, capture_output=True, text=True, timeout=60)
                o = p.stdout.strip().splitlines()
                out[name] = 'error' if '(error' in p.stdout else (o[0] if o else 'empty')
            except Exception as e:
                out[name] = 'failed:%s' % type(e).__name__
    finally:
        os.unlink(path)
    return out


def final_query(C, conds, inputs):
    neg = z3.Not(z3.And(*conds.values()))
    r = C.check(neg)
    if r == 'unsat':
        if XCHECK['left'] > 0:
            XCHECK['left'] -= 1
            XCHECK['done'] += 1
            res = second_solver(C, neg)
            if any(v == 'sat' for v in res.values()):
                XCHECK['disagree'].append(res)
            elif all(v == 'unsat' for v in res.values()):
                XCHECK['agree'] += 1
            else:
                XCHECK['inconclusive'] += 1
        return ('ok',)
    if r == 'unknown':
        return ('unknown', 'final validity query')
    m = C.solver.model()
    failed = [k for k, c in conds.items() if z3.is_false(m.eval(c, model_completion=True))]
    conc = {}
    for k, v in inputs.items():
        if isinstance(v, bsx.BStr):
            conc[k] = v.concrete(m)
        elif isinstance(v, bsx.SInt):
            conc[k] = m.eval(v.e, model_completion=True).as_long()
        else:
            conc[k] = v
    return ('violation', 'clauses %s' % ','.join(failed), conc)


def replay_h1(c):
    """plain CPython: the concrete packet through the real codec with real json-like stub"""
    part = c['part']
    ptype, k = part['type'], part.get('k', 0)
    J = c.get('J')
    log = []
    P = mk_packet_class(J, log)
    p = P.__new__(P)
    has_data = part['data'] or ptype in BIN
    p.packet_type = ptype
    p.data = (['e'] + [b'a%d' % i for i in range(k)]) if ptype in BIN else (Marker() if has_data else None)
    p.namespace, p.id, p.attachment_count, p.attachments = c.get('ns'), c.get('pid'), 0, []
    try:
        enc = p.encode()
        text = enc[0] if isinstance(enc, list) else enc
        ref = ref_encode(ptype, k, c.get('ns'), c.get('pid'), J)
        if text != ref:
            return Fail('codec:wire', 'encode() gave %r, the format prescribes %r' % (text, ref))
        q = P(encoded_packet=text)
    except Exception as e:
        return Fail('codec:roundtrip-exception:%s' % type(e).__name__, '%r on %r' % (e, c))
    ns = c.get('ns')
    exp_ns = None if ns in (None, '/') else ns.split('?')[0]
    got = (q.packet_type, q.namespace or '/', q.id, q.data, q.attachment_count)
    exp = (ptype, exp_ns or '/', c.get('pid'), ('JSON', J) if has_data else None, k)
    if got != exp:
        return Fail('codec:roundtrip', 'decoded %r, expected %r (frame %r)' % (got, exp, text))
    return None


# ---- H2: differential decode of an arbitrary frame ---------------------------------------------------
def h2(part):
    C = bsx.CTX
    F = bsx.BStr.sym('F')
    cls = part['cls']
    # partition on the first two characters (disjoint, jointly exhaustive)
    c0, c1 = F.at(0), F.at(1)
    if cls[0] == 'empty':
        C.add(F.n == 0)
    elif cls[0] == 'other':
        C.add(F.n >= 1, z3.Not(z3.And(c0 >= 48, c0 <= 54)))
    else:
        C.add(F.n >= 1, c0 == 48 + cls[0])
        second = {'end': F.n == 1, 'digit': z3.And(F.n >= 2, bsx.z_ascii_digit(c1)), 'slash': z3.And(F.n >= 2, c1 == 47),
                  'other': z3.And(F.n >= 2, z3.Not(bsx.z_ascii_digit(c1)), c1 != 47)}[cls[1]]
        C.add(second)
    try:
        ref = ref_decode(F)
    except RefReject:
        return ('ok-rejected',)
    loads_log = []
    P = mk_packet_class(None, loads_log)
    try:
        q = P(encoded_packet=F)
    except (bsx.Abort, bsx.BoundExceeded, bsx.Unsupported):
        raise
    except Exception as e:
        return final_query(C, {'accepts': z3.BoolVal(False)}, dict(F=F, why='%s: %s' % (type(e).__name__, e)))
    conds = {}
    qt = q.packet_type
    conds['type'] = qt.e == ref['type'] if isinstance(qt, bsx.SInt) else bexpr(qt == ref['type'])
    if ref['nsp'] is None:
        conds['namespace'] = bexpr(q.namespace is None)
    else:
        conds['namespace'] = q.namespace.eqe(ref['nsp']) if isinstance(q.namespace, bsx.BStr) else z3.BoolVal(False)
    if ref['id'] is None:
        conds['id'] = bexpr(q.id is None)
    else:
        conds['id'] = q.id.e == ref['id'].e if isinstance(q.id, bsx.SInt) else z3.BoolVal(False)
    if ref['json'] is None:
        conds['data'] = bexpr(q.data is None)
    else:
        conds['data'] = q.data[1].eqe(ref['json']) if isinstance(q.data, tuple) else z3.BoolVal(False)
    ac, rc = q.attachment_count, ref['count']
    conds['count'] = bsx.lift(ac) == bsx.lift(rc)
    return final_query(C, conds, dict(F=F))


def replay_h2(c):
    F = c['F']
    try:
        ref = ref_decode(F)
    except RefReject:
        return None
    log = []
    P = mk_packet_class(None, log)
    try:
        q = P(encoded_packet=F)
    except Exception as e:
        return Fail('codec:decoder-rejects-conformant-frame:%s' % type(e).__name__, 'frame %r: %r' % (F, e))
    got = (q.packet_type, q.namespace, q.id, q.data, q.attachment_count)
    exp = (ref['type'], ref['nsp'], ref['id'], ('JSON', ref['json']) if ref['json'] is not None else None, ref['count'])
    if got != exp:
        return Fail('codec:decode-differs', 'frame %r: decoded %r, format says %r' % (F, got, exp))
    return None


# ---- H4: translator validation on the repo's own test frames and the spec examples -------------------
SPEC_FRAMES = ['0', '0/admin,{"sid":"x"}', '1/admin,', '2["foo"]', '2/admin,["bar"]', '212["foo"]', '3/admin,13["bar"]',
               '4{"message":"Not authorized"}', '51-["baz",{"_placeholder":true,"num":0}]',
               '52-/admin,["baz",{"_placeholder":true,"num":0},{"_placeholder":true,"num":1}]',
               '61-15["bar",{"_placeholder":true,"num":0}]', '61-/admin,1[{"_placeholder":true,"num":0}]',
               '2/a?x=1,["e"]', '2/a', '0/a?q', '2١["a"]', '٢["a"]', '52-', 'x', '', '2/a,', '3/b,7[]',
               '51["a"]', '5a-["x"]', '511111111111-["x"]', '2-1["x"]']


def repo_test_frames():
    """string literals that look like frames in the repository's own codec tests"""
    import re
    out = []
    try:
        src = open('/repo/tests/common/test_packet.py').read()
    except OSError:
        return out
    for m in re.finditer(r"'([0-6][^'\n]{0,80})'", src):
        out.append(m.group(1).encode().decode('unicode_escape') if '\\' in m.group(1) else m.group(1))
    return sorted(set(out))


def validate_translator(L=40):
    """run real decode on str and on BStr.const for every sample frame; compare; same for ref_decode"""
    frames = [f for f in SPEC_FRAMES + repo_test_frames() if len(f) <= L]
    bad = []
    n = 0
    for f in frames:
        log = []
        P = mk_packet_class(None, log)
        try:
            q = P(encoded_packet=f) if f else None
            real = ('ok', q.packet_type, q.namespace, q.id, q.data, q.attachment_count) if q else ('empty',)
        except Exception as e:
            real = ('exc', type(e).__name__)
        try:
            r = ref_decode(f)
            refr = ('ok', r['type'], r['nsp'], r['id'], r['json'], r['count'])
        except RefReject:
            refr = ('reject',)

        def sym_run():
            log2 = []
            P2 = mk_packet_class(None, log2)
            C = bsx.CTX
            b = bsx.BStr.const(f)
            with bsx.Shadow(packet):
                try:
                    q2 = P2(encoded_packet=b) if f else None
                    if q2 is None:
                        out = ('empty',)
                    else:
                        m = None
                        assert C.check() == 'sat'
                        m = C.solver.model()

                        def cv(x):
                            if isinstance(x, bsx.BStr):
                                return x.concrete(m)
                            if isinstance(x, bsx.SInt):
                                return m.eval(x.e, model_completion=True).as_long()
                            if isinstance(x, tuple):
                                return tuple(cv(y) for y in x)
                            return x
                        out = ('ok', cv(q2.packet_type), cv(q2.namespace), cv(q2.id), cv(q2.data), cv(q2.attachment_count))
                except (bsx.Abort, bsx.BoundExceeded, bsx.Unsupported):
                    raise
                except Exception as e:
                    out = ('exc', type(e).__name__)
            try:
                r2 = ref_decode(b)
                m = C.solver.model() if C.check() == 'sat' else None

                def cv2(x):
                    if isinstance(x, bsx.BStr):
                        return x.concrete(m)
                    if isinstance(x, bsx.SInt):
                        return m.eval(x.e, model_completion=True).as_long()
                    return x
                rr = ('ok', r2['type'], cv2(r2['nsp']), cv2(r2['id']), cv2(r2['json']), cv2(r2['count']))
            except RefReject:
                rr = ('reject',)
            return out, rr
        st = bsx.explore(sym_run, max(8, len(f) + 2), budget_s=20)
        n += 1
        res = [x for x in st['results'] if x and x[0] != 'unsupported']
        if st['unsupported'] and real[0] == 'exc':
            continue      # frames outside the proxies' model (int() of exotic strings) are counted elsewhere
        if len(res) != 1 or res[0][0] != real or res[0][1] != refr:
            bad.append((f, real, refr, res, st['unsupported']))
    return n, bad


# ---- bsx check runner --------------------------------------------------------------------------------
def run_bsx(fn, replay_fn):
    def run(part, budget, tier, ksigs):
        L = part['L']
        t0 = time.monotonic()
        res = dict(part=part, confirmed=0, ignored=0, unknown=0, spurious=0, known=0, iters=0, exhausted=False,
                   nontrivial=0, violations=[], known_hits=[], samples=[], errors=[], witness_checked=0,
                   witness_ok=0, notes=[])
        if part.get('validate'):
            n, bad = validate_translator()
            res['notes'].append('translator validation: %d frames through str and BStr, %d disagreements' % (n, len(bad)))
            if bad:
                res['errors'].append('translator validation failed: %r' % (bad[:2],))
            res['confirmed'] = n
            res['nontrivial'] = n
            res['exhausted'] = res['exhausted_clean'] = not bad
            res['witness_checked'] = res['witness_ok'] = 1
            res['samples'] = [{'tape': [['str', f]] for f in SPEC_FRAMES[:3]}][:1]
            res['solver_queries'] = 0
            res['solver_time_s'] = 0.0
            res['cpu_s'] = res['wall_s'] = round(time.monotonic() - t0, 2)
            return res
        bsx.set_alphabet(part.get('alphabet', 'classes'))
        XCHECK.update(left=1 if tier == 'quick' else 3, done=0, agree=0, disagree=[], inconclusive=0)
        try:
            with bsx.Shadow(packet):
                st = bsx.explore(lambda: fn(part), L, budget_s=budget)
        finally:
            bsx.set_alphabet('classes')
        res['notes'].append('second-solver cross-check of %d unsat queries: %d confirmed by both z3 4.8.12 and cvc5 1.0.3, '
                            '%d inconclusive' % (XCHECK['done'], XCHECK['agree'], XCHECK['inconclusive']))
        if XCHECK['disagree']:
            res['errors'].append('second solver disagrees: %r' % (XCHECK['disagree'][:2],))
        for r in st['results']:
            if r[0] in ('ok', 'ok-rejected'):
                res['confirmed'] += 1
                if r[0] == 'ok':
                    res['nontrivial'] += 1
            elif r[0] in ('unknown', 'unsupported'):
                res['unknown'] += 1
                res['notes'].append(repr(r)[:200])
            elif r[0] == 'violation':
                v = replay_fn(r[2])
                if v is None:
                    res['spurious'] += 1
                    res['notes'].append('spurious (does not reproduce concretely): %r' % (r[1:],))
                elif v.sig in ksigs:
                    res['known'] += 1
                    res['known_hits'].append({'sig': v.sig, 'detail': v.detail, 'tape': [['case', r[2]]]})
                else:
                    res['violations'].append({'sig': v.sig, 'detail': v.detail + ' [solver: %s]' % r[1],
                                              'tape': [['case', r[2]]]})
        res['ignored'] = st['infeasible']
        res['notes'].append('paths needing a string longer than L (outside the bound): %d' % st['bound_exceeded'])
        res['exhausted'] = st['exhausted']
        res['exhausted_clean'] = st['exhausted'] and not res['unknown'] and not res['spurious']
        res['solver_queries'] = st['queries']
        res['solver_time_s'] = st['solver_time_s']
        res['cpu_s'] = res['wall_s'] = round(time.monotonic() - t0, 2)
        res['iters'] = st['paths']
        # which socketio functions ran (measured on a concrete run of the same harness code path)
        import sys as _sys
        import os as _os
        seen = set()

        def prof(frame, event, arg):
            if event == 'call' and '/socketio/' in frame.f_code.co_filename:
                seen.add('%s:%s' % (_os.path.basename(frame.f_code.co_filename), frame.f_code.co_qualname))
        _sys.setprofile(prof)
        try:
            Pc = mk_packet_class('["x"]', [])
            q = Pc(encoded_packet='52-/a?q,7["x"]')
            q.packet_type, q.data = 5, ['e', b'a', b'b']
            q.encode()
        except Exception:
            pass
        finally:
            _sys.setprofile(None)
        res['functions'] = sorted(seen)
        # vacuity witness: at least one path reached the final validity query
        res['witness_checked'] = 1
        res['witness_ok'] = 1 if res['nontrivial'] or res['violations'] or res['known'] else 0
        if res['nontrivial']:
            res['samples'] = [{'tape': [['case', {'part': part, 'paths_closed_by_unsat_query': res['nontrivial']}]]}]
        return res

    def replay(part, tape):
        return replay_fn(tape[0][1])
    return run, replay


# ---- H3: payload trees with bytes leaves (xh engine) ---------------------------------------------------
def ref_deconstruct(data, atts):
    """depth-first numbered placeholders (Socket.IO v5 binary packets)"""
    if isinstance(data, (bytes, bytearray)):
        atts.append(data)
        return {'_placeholder': True, 'num': len(atts) - 1}
    if isinstance(data, (list, tuple)):
        return [ref_deconstruct(x, atts) for x in data]
    if isinstance(data, dict):
        return {k: ref_deconstruct(v, atts) for k, v in data.items()}
    return data


def has_bytes(d):
    if isinstance(d, (bytes, bytearray)):
        return True
    if isinstance(d, (list, tuple)):
        return any(has_bytes(x) for x in d)
    if isinstance(d, dict):
        return any(has_bytes(x) for x in d.values())
    return False


def h3(t, part):
    from vf import stubs
    ptype = part['type']
    depth, width = part['depth'], part['width']
    if 'first' in part:
        t.force([part['first']])
    if part.get('symleaf'):
        trees = [t.tree(depth, width, kinds=part['kinds'], maxlen=2)]
    else:
        # shapes are enumerated by the solver; leaves are concrete and pairwise distinct (no code in the codec
        # branches on a leaf value), which lets the codec itself run untraced
        cnt = [0]

        nbytes = [0]

        def leaf():
            cnt[0] += 1
            k = part['kinds'][t.choice(len(part['kinds']))]
            if k == 'y':
                nbytes[0] += 1
                # pairwise distinct, except that every third byte string repeats the first (equal values are legal)
                return b'y1' if nbytes[0] % 3 == 0 else b'y%d' % nbytes[0]
            return {'n': None, 'i': cnt[0], 's': 's%d' % cnt[0]}[k]

        def tree(d):
            if d <= 0:
                return leaf()
            k = t.choice(3)
            if k == 0:
                return leaf()
            n = t.choice(width + 1)
            if k == 1:
                return [tree(d - 1) for _ in range(n)]
            return {['num', 'k1', 'k2', 'k3'][i]: tree(d - 1) for i in range(n)}       # 'num' alone is an ordinary key
        trees = [tree(depth)]
        with notrace():
            return h3_body(t, part, trees)
    return h3_body(t, part, trees)


def h3_body(t, part, trees):
    from vf import stubs
    ptype = part['type']
    if ptype == packet.EVENT:
        data = ['ev'] + trees
    elif ptype == packet.ACK:
        data = trees
    else:
        data = trees[0] if not isinstance(trees[0], list) else {'k': trees[0]}
    with notrace():
        P = stubs.tok_packet_class()
    binary = has_bytes(data)
    ns, pid = part['hdr']
    try:
        p = P(ptype, data=data, namespace=ns, id=pid)
    except ValueError:
        if binary and ptype not in (packet.EVENT, packet.ACK):
            t.reached('bytes-rejected')
            return None
        return Fail('tree:constructor-rejects', 'type %d data %r' % (ptype, data))
    if binary and ptype not in (packet.EVENT, packet.ACK):
        return Fail('tree:bytes-accepted-on-type-%d' % ptype, repr(data))
    exp_type = ptype if not binary else {packet.EVENT: packet.BINARY_EVENT, packet.ACK: packet.BINARY_ACK}[ptype]
    if p.packet_type != exp_type:
        return Fail('tree:promotion', 'type %r, expected %r (binary=%r)' % (p.packet_type, exp_type, binary))
    enc = p.encode()
    exp_atts = []
    exp_text_data = ref_deconstruct(data, exp_atts)
    if binary:
        if not isinstance(enc, list):
            return Fail('tree:no-attachment-list', repr(enc))
        text, atts = enc[0], enc[1:]
    else:
        if isinstance(enc, list):
            return Fail('tree:unexpected-attachment-list', repr(enc))
        text, atts = enc, []
    if len(atts) != len(exp_atts) or not all(a == b for a, b in zip(atts, exp_atts)):
        return Fail('tree:attachment-order', 'attachments %r, depth-first order is %r' % (atts, exp_atts))
    # the text frame: header per the format, payload = compact JSON of the placeholder tree
    hdr = str(exp_type) + (('%d-' % len(exp_atts)) if binary else '') + ((ns + ',') if ns not in (None, '/') else '') + \
        (str(pid) if pid is not None else '')
    if not text.startswith(hdr):
        return Fail('tree:header', 'frame %r does not start with %r' % (text, hdr))
    tok = text[len(hdr):]
    sent = P.J.tab.get(tok)
    if sent is None and data is not None:
        return Fail('tree:payload-text', 'frame %r' % (text,))
    if data is not None and not (sent == exp_text_data):
        return Fail('tree:placeholders', 'payload %r, the format prescribes %r' % (sent, exp_text_data))
    # decode and hand the attachments back one by one
    q = P(encoded_packet=text)
    if q.attachment_count != len(exp_atts):
        return Fail('tree:attachment-count', '%r != %r' % (q.attachment_count, len(exp_atts)))
    for i, a in enumerate(atts):
        done = q.add_attachment(a)
        if done != (i == len(atts) - 1):
            return Fail('tree:completion-report', 'add_attachment #%d of %d returned %r' % (i + 1, len(atts), done))
    try:
        q.add_attachment(b'zz')
        return Fail('tree:surplus-attachment-accepted', '')
    except ValueError:
        pass
    exp_data = _normalise(data)
    got = (q.packet_type, q.namespace or '/', q.id)
    if got != (exp_type, ns or '/', pid):
        return Fail('tree:roundtrip-header', '%r' % (got,))
    if not _same(q.data, exp_data):
        return Fail('tree:roundtrip-data', 'decoded %r, sent %r' % (q.data, exp_data))
    # encoding is a function of the packet: the same object encoded again, and the decoded packet encoded (a relay), give
    # the same frames
    def parsed(frames):
        # (the JSON text is an opaque token in this harness: compare what it stands for)
        text_, atts_ = (frames[0], list(frames[1:])) if isinstance(frames, list) else (frames, [])
        r = P(encoded_packet=text_)
        return (r.packet_type, r.namespace or '/', r.id, r.attachment_count, len(atts_)), r.data, atts_
    first = parsed(enc)
    for who, obj in (('the same packet encoded twice', p), ('the decoded packet re-encoded', q)):
        again = parsed(obj.encode())
        if again[0] != first[0] or not _same(again[1], first[1]) or again[2] != first[2]:
            return Fail('tree:encode-not-repeatable', '%s: first %r, then %r' % (who, first, again))
    t.reached('tree')
    t.note('binary', binary, 'attachments', len(exp_atts))
    return None


def _normalise(d):
    if isinstance(d, (list, tuple)):
        return [_normalise(x) for x in d]
    if isinstance(d, dict):
        return {k: _normalise(v) for k, v in d.items()}
    return d


def _same(a, b):
    if type(a) is not type(b) and not (isinstance(a, (int, str, bytes)) and isinstance(b, (int, str, bytes))):
        if not (a is None and b is None):
            return isinstance(a, type(b)) or isinstance(b, type(a)) if False else a == b
    if isinstance(a, list):
        return len(a) == len(b) and all(_same(x, y) for x, y in zip(a, b))
    if isinstance(a, dict):
        return list(a) == list(b) and all(_same(a[k], b[k]) for k in a)
    if isinstance(a, (bytes, bytearray)) != isinstance(b, (bytes, bytearray)):
        return False
    return a == b


def h3_parts(tier):
    out = []
    if tier == 'quick':
        for ty in range(5):
            for first in range(3):          # leaf / list / dict at the root
                out.append(dict(type=ty, depth=2, width=2, kinds='iy', hdr=[None, None] if ty % 2 else ['/a', 13], first=first))
    else:
        for ty in range(5):
            for first in range(3):
                for hdr in ([None, None], ['/a', 13], ['/', 0]):
                    out.append(dict(type=ty, depth=2, width=2, kinds='nisy', hdr=hdr, first=first))
                out.append(dict(type=ty, depth=2, width=2, kinds='iy', hdr=['/a', 0], first=first, symleaf=True))
                out.append(dict(type=ty, depth=3, width=1, kinds='nisy', hdr=['/a', 0], first=first, symleaf=True))
    return out


def h1_parts(tier):
    L = 10 if tier == 'quick' else 16
    out = []
    for ty in range(7):
        for ns in ('none', 'slash', 'sym'):
            for hid in (False, True):
                if ty in BIN:
                    for k in ((0, 1, 3, 12) if tier == 'quick' else (0, 1, 2, 3, 10, 11, 12)):
                        out.append(dict(L=L, type=ty, ns=ns, id=hid, data=True, k=k))
                else:
                    for d in (False, True):
                        if ty in (2, 3) and not d:
                            continue
                        out.append(dict(L=L, type=ty, ns=ns, id=hid, data=d))
    if tier != 'quick':
        # every Unicode code point at a shorter length
        out += [dict(L=8, type=ty, ns='sym', id=True, data=True, alphabet='full') for ty in (0, 2, 4)]
    return out


def h2_parts(tier):
    L = 10 if tier == 'quick' else 14
    out = [dict(L=L, cls=['empty']), dict(L=L, cls=['other'])]
    for ty in range(7):
        for s in ('end', 'digit', 'slash', 'other'):
            out.append(dict(L=L, cls=[ty, s]))
    if tier != 'quick':
        # every Unicode code point (83 isdigit ranges, 68 decimal blocks of this interpreter) at a shorter length
        out += [dict(L=6, cls=[ty, s], alphabet='full') for ty in (2, 5) for s in ('digit', 'slash', 'other')]
    return out


_r1, _p1 = run_bsx(h1, replay_h1)
_r2, _p2 = run_bsx(h2, replay_h2)
_rv, _pv = run_bsx(None, None)

CHECKS = [
    dict(name='payload-trees', fn=h3, parts=h3_parts, budget={'quick': 180, 'thorough': 600}, per_path_s=20),
    dict(name='translator-validation', engine='bsx', run=_rv, replay=_pv, parts=[dict(L=40, validate=True)],
         budget={'quick': 180, 'thorough': 120}),
    dict(name='header-roundtrip', engine='bsx', run=_r1, replay=_p1, parts=h1_parts,
         budget={'quick': 180, 'thorough': 900}),
    dict(name='differential-decode', engine='bsx', run=_r2, replay=_p2, parts=h2_parts,
         budget={'quick': 180, 'thorough': 900}),
]

META = dict(
    engine='bsx (bounded symbolic strings over z3, real Packet.encode/decode bytecode) + xh for payload trees',
    explanation='The real bytecode of socketio.packet.Packet.encode/decode runs on bounded symbolic strings (every code '
                'point 0..0x10FFFF, exact isdigit/int tables of this interpreter); each path ends in a validity query '
                '(path condition and negated property must be unsat). Round trip, string equality with a '
                'specification-derived encoder, and differential decoding against a specification-derived decoder on '
                'completely arbitrary frames.',
    bounds={'quick': 'header round trip: every type x namespace {none, "/", symbolic} x id {none, symbolic n>=0} x payload '
                     'text {none, symbolic}, total frame <= 10 code points, attachment counts {0,1,3,12}; differential '
                     'decode: arbitrary frame <= 10 code points',
            'thorough': 'frame <= 16 (round trip, counts {0,1,2,3,10,11,12}) / <= 14 (differential)'},
    outside=['top-level numeric payloads on CONNECT/DISCONNECT/CONNECT_ERROR (Packet(4, data=12) encodes to "412", which '
             'every v5 decoder reads as id 12: the format itself is ambiguous there)', 'frames longer than L',
             'JSON loads/dumps themselves (stdlib; the payload text is an arbitrary symbolic string constrained only in '
             'its first character)'],
    stubs=['json -> symbolic text: dumps returns the symbolic string J, loads records its argument'],
    assumptions=['stdlib json: loads(dumps(x)) == x for JSON-compatible x'],
)
