"""C11 No residual server state once a client is gone."""
from socketio import packet

from vf import worlds, miniloop
from vf.tape import Fail, notrace

PROPERTY = 'C11'

OPS = ['connect /', 'connect /a', 'connect refused', 'enter room', 'event', 'event+ack', 'binary header only',
       'binary header + 1 of 2', 'emit with callback (unanswered)', 'emit with callback (answered)', 'malformed',
       'client DISCONNECT', 'server disconnect', 'server disconnect, transport lost during the handler', 'leave own room',
       'emit to a room with callback, transport lost during the sends']


class Boom(RuntimeError):
    pass


class Interrupt(BaseException):
    """what ends a worker from outside while it is inside the application's handler (KeyboardInterrupt, SystemExit,
    gevent's Timeout / GreenletExit): not an Exception"""


def residue(w, e, sids):
    """what the server still keeps for transport e / its session ids (list of strings)"""
    s, m = w.s, w.s.manager
    out = worlds.client_residue(s, list(sids) + ([e] if e else []))
    for sid in sids:
        for ns in ('/', '/a', '/r'):
            if s.rooms(sid, ns):
                out.append('rooms(%s,%s)' % (sid, ns))
            if m.is_connected(sid, ns):
                out.append('is_connected(%s,%s)' % (sid, ns))
            if s.get_environ(sid, ns) is not None:
                out.append('get_environ(%s,%s)' % (sid, ns))
    return out


def comp(r):
    """the component names only (signature)"""
    return ','.join(sorted({x.split('[')[0].split('(')[0].replace('manager.', '').replace('server.', '') for x in r}))


def h(t, part):
    import asyncio as real_asyncio
    try:
        return h_inner(t, part)
    except real_asyncio.CancelledError as e:
        # the server let the handler's CancelledError through to engine.io (which would end the connection's task)
        return Fail('residue:cancellation-escaped', 'a handler coroutine that ended in CancelledError took the server\'s '
                    'own processing with it: %r' % (e,))


def h_inner(t, part):
    asyncio_ = part['async']
    fault_at = t.int(-1, 3)           # which handler invocation raises (-1: none)
    inv = {'n': 0, 'raised': None, 'armed': False}

    def maybe_raise(kind):
        if not inv['armed']:
            return
        if part.get('fault') == 'interrupt' and kind != 'disconnect':
            return          # (threaded: the interruption is placed in a disconnect handler of a namespace-level termination)
        k = inv['n']
        inv['n'] += 1
        if fault_at == k:
            inv['raised'] = kind
            if part.get('fault') == 'cancelled':
                import asyncio as real_asyncio
                raise real_asyncio.CancelledError()
            if part.get('fault') == 'interrupt':
                raise Interrupt(kind)
            raise Boom(kind)

    meanwhile = {'lose': False}

    def mk(kind, ret=None, legacy=False):
        if asyncio_ and legacy:
            async def f(sid):                 # legacy disconnect handler: no reason argument
                maybe_raise(kind)
                return ret
        elif asyncio_:
            async def f(sid, *a):
                if kind == 'disconnect' and meanwhile['lose']:
                    # the client closes its transport on receiving DISCONNECT: the loss is processed to the end while this
                    # handler is suspended
                    meanwhile['lose'] = False
                    await w.eio.lose('e0')
                maybe_raise(kind)
                return ret
        else:
            def f(sid, *a):
                if kind == 'disconnect' and meanwhile['lose']:
                    # (threaded server: the transport's thread runs to the end while this handler is pre-empted)
                    meanwhile['lose'] = False
                    w.eio.lose('e0')
                maybe_raise(kind)
                return ret
        return f

    with notrace():
        kw = {}
        if part.get('manager') == 'pubsub':
            from harness import c07
            kw['client_manager'] = c07.make_manager(asyncio_, [])
        w = worlds.SWorld(asyncio_, async_handlers=part.get('async_handlers', False), always_connect=part['always_connect'], **kw)
        import socketio.async_server as _as
        held0 = len(_as.task_reference_holder)      # module-level set that keeps background handler tasks alive
        for ns in ('/', '/a'):
            w.s.on('connect', mk('connect'), namespace=ns)
            w.s.on('ev', mk('event', 5), namespace=ns)
            w.s.on('disconnect', mk('disconnect', legacy=bool(part.get('legacy'))), namespace=ns)
        w.s.on('connect', mk('connect', False), namespace='/r')
        fresh = worlds.server_state(w.s)
        # the bystander
        w.open('e1')
        b_sid = w.connect('e1', '/')
        w.call(w.s.enter_room(b_sid, 'lobby'))
        by_before = (sorted(w.s.rooms(b_sid)), w.s.manager.is_connected(b_sid, '/'))
        w.open('e0')
    inv['armed'] = True     # the bystander's own handler invocations do not count
    sids = []
    live = {}
    if 'first' in part:
        t.force([part['first']])
    ended_by = None
    for step in range(part['n']):
        o = t.choice(len(OPS))
        op = OPS[o]
        cur = next((ns for ns in ('/', '/a') if live.get(ns)), None)
        if op in ('connect /', 'connect /a'):
            ns = op.split()[1]
            sid = w.connect('e0', ns)
            # even when the answer is not a CONNECT the server may have allocated a sid
            got = w.sid('e0', ns)
            if got and got not in sids:
                sids.append(got)
            live[ns] = got
        elif op == 'connect refused':
            w.connect('e0', '/r')
            got = w.sid('e0', '/r')
            if got:
                sids.append(got)
        elif cur is None:
            continue
        elif op == 'enter room':
            if w.s.manager.is_connected(live[cur], cur):
                # room names are the application's: numeric ids and empty strings are names like any other
                w.call(w.s.enter_room(live[cur], [0, '', 'room%d' % step][t.choice(3)], namespace=cur))
        elif op == 'leave own room':
            # the application takes the client out of the room named after its own session id
            w.call(w.s.leave_room(live[cur], live[cur], namespace=cur))
        elif op == 'event':
            w.send('e0', w.P(packet.EVENT, data=['ev', 1], namespace=cur))
        elif op == 'event+ack':
            w.send('e0', w.P(packet.EVENT, data=['ev', 1], namespace=cur, id=7))
        elif op == 'binary header only':
            fr = worlds.encode_frames(w.P(packet.EVENT, data=['ev', b'a'], namespace=cur))
            w.recv('e0', fr[0])
        elif op == 'binary header + 1 of 2':
            fr = worlds.encode_frames(w.P(packet.EVENT, data=['ev', b'a', b'b'], namespace=cur))
            w.recv('e0', fr[0])
            w.recv('e0', fr[1])
        elif op == 'emit with callback (unanswered)':
            if w.s.manager.is_connected(live[cur], cur):
                w.call(w.s.emit('q', 1, to=live[cur], namespace=cur, callback=lambda *a: None))
        elif op == 'emit with callback (answered)':
            if w.s.manager.is_connected(live[cur], cur):
                w.take('e0')
                w.call(w.s.emit('q', 1, to=live[cur], namespace=cur, callback=lambda *a: None))
                ev = [p for p in w.take('e0') if not isinstance(p, tuple) and p.packet_type == packet.EVENT]
                if ev:
                    w.send('e0', w.P(packet.ACK, data=[1], namespace=cur, id=ev[0].id))
        elif op == 'emit to a room with callback, transport lost during the sends':
            if part.get('manager') == 'pubsub':
                continue        # (the queue managers key such a callback by the room and keep it: multi-recipient callbacks are documented as unsupported there)
            if cur == '/' and w.s.manager.is_connected(live[cur], cur):
                # the bystander is the first recipient; while the send to it is suspended the transport of the second
                # recipient ends and is wound up completely (asyncio; on the threaded server sends do not suspend)
                w.call(w.s.enter_room(live[cur], 'lobby', namespace='/'))       # (the bystander's room: it joined first)
                if asyncio_:
                    async def both():
                        tk = miniloop.create_task(w.s.emit('q', 1, to='lobby', namespace='/', callback=lambda *a: None), 'emit')
                        await miniloop.sleep(0)
                        await w.eio.lose('e0')
                        await tk
                    w.call(both())
                else:
                    w.call(w.s.emit('q', 1, to='lobby', namespace='/', callback=lambda *a: None))
                break
        elif op == 'malformed':
            w.recv('e0', ['x', '9', '2/a', '51-["ev"'][step % 4])
        elif op == 'client DISCONNECT':
            try:
                w.send('e0', w.P(packet.DISCONNECT, namespace=cur))
            except Interrupt:
                pass        # (ends the thread that engine.io runs the message on)
            live[cur] = None
        elif op in ('server disconnect', 'server disconnect, transport lost during the handler'):
            meanwhile['lose'] = op != 'server disconnect' and not part.get('legacy') and part.get('fault') != 'interrupt'
            try:
                w.call(w.s.disconnect(live[cur], namespace=cur))
            except (Boom, Interrupt):
                pass        # the application's own handler raised into the application's call
            meanwhile['lose'] = False
            live[cur] = None
    # the transport ends
    if part.get('fault') == 'interrupt':
        inv['armed'] = False        # (the interruption is not placed in the processing of the loss itself)
    w.lose('e0')
    w.finish()
    late = part.get('late')
    if late:
        # packets that follow the CLOSE packet in the client's last polling payload are still handed over by engine.io
        if late == 'connect':
            fr = worlds.encode_frames(w.P(packet.CONNECT, namespace='/a'))[0]
        elif late == 'binary-header':
            fr = worlds.encode_frames(w.P(packet.EVENT, data=['ev', b'a'], namespace='/'))[0]
        else:
            fr = worlds.encode_frames(w.P(packet.EVENT, data=['ev', 1], namespace='/', id=3))[0]
        w.call(w.eio.recv_after_close('e0', fr))
        w.finish()
        got = w.sid('e0', '/a')
        if got and got not in sids:
            sids.append(got)
    if True:
        # a late enter_room (e.g. from an event handler still running in the background) for the dead session
        for sd in sids:
            try:
                w.call(w.s.enter_room(sd, 'lobby'))
            except Exception:
                pass
    t.reached('transport-ended')
    t.note('fault_at', fault_at, 'raised in', inv['raised'], 'handler invocations', inv['n'])
    r = residue(w, 'e0', sids)
    if r:
        cause = 'handler-raised:%s' % inv['raised'] if inv['raised'] else 'no-fault'
        if late:
            cause = 'packet-after-close:%s' % late
        return Fail('residue:%s:%s' % (comp(r), cause), 'left behind: %r (sids %r)' % (r, sids))
    by_after = (sorted(w.s.rooms(b_sid)), w.s.manager.is_connected(b_sid, '/'))
    if by_after != by_before:
        return Fail('residue:bystander-changed', '%r -> %r' % (by_before, by_after))
    if len(_as.task_reference_holder) != held0:
        return Fail('residue:task_reference_holder:%s' % ('handler-raised:%s' % inv['raised'] if inv['raised'] else 'no-fault'),
                    '%d finished handler tasks (with their payloads and tracebacks) are still referenced by '
                    'socketio.async_server.task_reference_holder' % (len(_as.task_reference_holder) - held0))
    fault_before = inv['raised']
    inv['armed'] = False
    w.lose('e1')
    w.finish()
    if inv['raised'] == fault_before:
        st = worlds.server_state(w.s)
        if st != fresh:
            return Fail('residue:not-fresh:%s' % ('handler-raised:%s' % inv['raised'] if inv['raised'] else 'no-fault'),
                        'state after the last client left: %r' % (st,))
    return None


def parts(tier):
    n = 3 if tier == 'quick' else 4
    out = [{'async': a, 'always_connect': ac, 'n': n, 'first': f}
           for a in (False, True) for ac in (False, True) for f in range(len(OPS))]
    # the same lives on a host of a pub/sub cluster (the claim is made for the host that owns the client)
    out += [{'async': a, 'always_connect': ac, 'n': n - 1, 'first': f, 'manager': 'pubsub'}
            for a in (False, True) for ac in (False, True) for f in range(len(OPS))]
    # handlers run as background tasks (async_handlers=True, the default of the library): nothing keeps the finished tasks
    out += [{'async': True, 'always_connect': False, 'n': 2, 'first': f, 'async_handlers': True} for f in range(len(OPS))]
    # a Socket.IO packet behind the engine.io CLOSE in the last polling payload
    out += [{'async': a, 'always_connect': False, 'n': 1, 'first': f, 'late': lt}
            for a in (False, True) for lt in ('connect', 'binary-header', 'event') for f in (0, 4)]
    # asyncio: the handler coroutine ends in CancelledError (a BaseException); handlers with the legacy signature
    out += [{'async': True, 'always_connect': False, 'n': n - 1, 'first': f, 'fault': 'cancelled', 'legacy': lg}
            for lg in (False, True) for f in range(len(OPS))]
    # threaded: the worker is interrupted (a BaseException that is not an Exception) inside the disconnect handler of a
    # client DISCONNECT or of server.disconnect(); the transport ends afterwards
    out += [{'async': False, 'always_connect': False, 'n': n, 'first': f, 'fault': 'interrupt'} for f in (0, 1)]
    return out


CHECKS = [dict(name='residue', fn=h, parts=parts, budget={'quick': 180, 'thorough': 900}, per_path_s=20)]

META = dict(
    explanation='Real Server/AsyncServer + Manager: a client life of bounded length with a symbolic fault position '
                '(which application handler invocation raises), ended by loss of the transport; afterwards every '
                'server/manager container is inspected for the transport id and all session ids it ever had, and '
                'after the bystander leaves the whole state must equal that of the freshly built server.',
    bounds={'quick': '3 operations from %r (the last one: the loss is processed entirely while the disconnect handler of a server-initiated disconnect is suspended) on one transport (namespaces /, /a, refusing /r) + transport loss; at most '
                     'one raising handler invocation among the first 4 (symbolic index); always_connect in {F,T}; asyncio also with handlers ending in CancelledError and legacy one-argument disconnect handlers (2 operations); threaded also with the worker interrupted by a BaseException inside the disconnect handler of a namespace-level termination; a '
                     'bystander in a room on /' % (OPS,),
            'thorough': 'same with 4 operations'},
    outside=['heap-size measurement (the memory clause is claimed as state equality with a fresh server)',
             'pub/sub managers beyond lives of n-1 operations on the owning host', 'async_handlers=True on the threaded server (the asyncio server has lives of 2 operations with background handler tasks)'],
    stubs=['engine.io server -> FakeEio/FakeAEio (contains exceptions of the three callbacks like engineio/server.py:445-471)',
           'JSON text -> TokJson', 'asyncio -> vf.miniloop (FIFO)'],
    assumptions=['a raising handler raises an Exception subclass or (asyncio, coroutine handlers) asyncio.CancelledError', 'at most one handler invocation raises per life'],
)
