"""C05 Incoming events: one handler invocation, one matching ACK to the sender only."""
import socketio
from socketio import packet

from vf import worlds
from vf.tape import Fail, notrace

PROPERTY = 'C05'
BIG = 10 ** 20
WHO = ['fn', 'catchall-event', 'catchall-namespace', 'cls', 'cls-plain-method', 'cls-star', 'nobody', 'cls-without-method']
SLOTS = [('e0', '/'), ('e0', '/a'), ('e1', '/'), ('e1', '/a')]     # (e1, /a) is NOT connected


def ack_payload(r):
    return [] if r is None else list(r) if isinstance(r, tuple) else [r]


def contains_bytes(d):
    if isinstance(d, (bytes, bytearray)):
        return True
    if isinstance(d, (list, tuple)):
        return any(contains_bytes(x) for x in d)
    if isinstance(d, dict):
        return any(contains_bytes(x) for x in d.values())
    return False


def h(t, part):
    asyncio_ = part['async']
    who = part['who']
    calls = []
    rets = []

    class Boom(RuntimeError):
        pass

    def body(tag, a):
        calls.append((tag, a))
        if part.get('boom_first') and len(calls) == 1:
            raise Boom('application handler')
        return rets[-1] if rets else None

    def mk(tag, coro):
        if coro:
            async def f(*a):
                return body(tag, a)
        else:
            def f(*a):
                return body(tag, a)
        return f

    with notrace():
        w = worlds.SWorld(asyncio_, async_handlers=part['async_handlers'], namespaces=['/', '/a'])
        coro = asyncio_ and who != 'cls-plain-method'
        base = socketio.AsyncNamespace if asyncio_ else socketio.Namespace
        for ns in ('/', '/a'):
            if who == 'fn':
                w.s.on('ev', mk('fn', coro), namespace=ns)
            elif who == 'catchall-event':
                w.s.on('*', mk('catchall-event', coro), namespace=ns)
            elif who in ('cls', 'cls-plain-method'):
                m = mk('cls', coro)
                if coro:
                    async def on_ev(self, *a, m=m):
                        return await m(*a)
                else:
                    def on_ev(self, *a, m=m):
                        return m(*a)
                w.s.register_namespace(type('N', (base,), {'on_ev': on_ev})(ns))
            elif who == 'cls-without-method':
                # a class-based namespace is responsible for the namespace but has no method for this event: nothing is
                # invoked, the event is acknowledged without arguments
                w.s.register_namespace(type('N', (base,), {'on_other': (lambda self, *a: None)})(ns))
        if who == 'catchall-namespace':
            w.s.on('ev', mk('catchall-namespace', coro), namespace='*')
        if who == 'cls-star':
            m = mk('cls-star', coro)

            async def on_ev_a(self, *a):
                return await m(*a)

            def on_ev_s(self, *a):
                return m(*a)
            w.s.register_namespace(type('N', (base,), {'on_ev': on_ev_a if coro else on_ev_s})('*'))
        sids = {}
        for e in ('e0', 'e1'):
            w.open(e)
        for e, ns in SLOTS[:3]:
            sids[(e, ns)] = w.connect(e, ns)
        sids[('e1', '/a')] = None
        for e in ('e0', 'e1'):
            w.take(e)
    if 'first' in part:
        t.force([part['first']])
    expected_order = []
    for k in range(part['n']):
        slot = t.choice(4)
        e, ns = SLOTS[slot]
        sid = sids[(e, ns)]
        if part.get('ret_trees'):
            idk, eid, x, args = 2, t.int(1, 2), 7, []
        routing_only = slot != 0 and k == 0 and not part.get('full_slots')
        if routing_only:
            # the other senders / namespaces: one fixed event shape (routing and isolation are what is checked)
            idk, eid, x, args, ret = 2, t.int(1, 2), 5, [5], (5, 's')
        if (k == 0 or part.get('full_second')) and not part.get('ret_trees') and not routing_only:
            idk = t.choice(4)
            eid = None if idk == 0 else 0 if idk == 1 else t.int(1, 2) if idk == 2 else BIG
            x = t.int(-3, 3)
            argform = t.choice(3)
            args = [[], [x], [b'\x01\x02', {'k': [x, b'z']}]][argform]
        if routing_only:
            pass
        elif k == 0 or part.get('full_second') or part.get('ret_trees'):
            if part.get('ret_trees'):
                cntb = [0]

                def rtree(d):
                    kk = t.choice(3) if d > 0 else 0
                    if kk == 0:
                        if t.bool():
                            return 7
                        cntb[0] += 1
                        return b'r%d' % cntb[0]
                    nn = t.choice(3)
                    if kk == 1:
                        return [rtree(d - 1) for _ in range(nn)]
                    return {['num', 'k1'][i]: rtree(d - 1) for i in range(nn)}
                ret = rtree(2)
            else:
                retform = t.choice(9)
                ret = [None, x, 0, '', [x, 's'], {'a': x}, (x, 's'), b'bin', {'files': [b'f', {'t': b'g'}]}][retform]
        else:
            # second event: fixed shape, any sender (order and per-client isolation)
            idk, eid, x = 2, t.int(1, 2), 5
            args, ret = [x], 'second'
        if who == 'cls-without-method':
            ret = None
        rets.append(ret)
        ncalls = len(calls)
        other = 'e1' if e == 'e0' else 'e0'
        other_before = len(w.frames(other))
        pkt = w.P(packet.EVENT, data=['ev'] + args, namespace=ns, id=eid if idk != 2 else 1)
        frames = worlds.encode_frames(pkt)
        if idk == 2:
            q = w.P(encoded_packet=frames[0])
            frames[0] = w.P.inject(type=q.packet_type, namespace=ns, id=eid, data=q.data, count=q.attachment_count)
        for f in frames:
            w.recv(e, f)
        w.finish()
        boomed = part.get('boom_first') and k == 0 and sid is not None and who != 'nobody'
        if boomed:
            # the application's handler raised (engine.io contains it): no ACK is due, nothing else may be disturbed
            if [x for x in w.eio.contained if type(x[1]).__name__ != 'Boom']:
                return Fail('event:exception-after-raising-handler', repr(w.eio.contained))
            del w.eio.contained[:]
            w.take(e)
            continue
        if w.eio.contained:
            return Fail('event:exception:%s' % type(w.eio.contained[0][1]).__name__, repr(w.eio.contained[0]))
        new = calls[ncalls:]
        got = w.take(e)
        if len(w.frames(other)) != other_before:
            return Fail('event:sent-to-another-client', repr(w.frames(other)[other_before:]))
        if sid is None:
            if new or got:
                return Fail('event:unconnected-namespace-served', 'calls %r packets %r' % (new, [worlds.pk(p) for p in got]))
            continue
        targs = tuple(args)
        exp = {'fn': [('fn', (sid,) + targs)], 'catchall-event': [('catchall-event', ('ev', sid) + targs)],
               'catchall-namespace': [('catchall-namespace', (ns, sid) + targs)], 'cls': [('cls', (sid,) + targs)],
               'cls-plain-method': [('cls', (sid,) + targs)], 'cls-star': [('cls-star', (ns, sid) + targs)],
               'nobody': [], 'cls-without-method': []}[who]
        if len(new) != len(exp):
            return Fail('event:invocations:%s:%d' % (who, len(new)), 'event on %s %s: calls %r' % (e, ns, new))
        if exp and not (new[0][0] == exp[0][0] and new[0][1] == exp[0][1]):
            return Fail('event:arguments:%s' % who, 'expected %r got %r' % (exp, new))
        if exp:
            expected_order.append(k)
        if eid is None or who == 'nobody':
            if got:
                return Fail('event:unexpected-answer:%s' % ('no-id' if eid is None else 'nobody-responsible'),
                            repr([worlds.pk(p) for p in got]))
            continue
        if len(got) != 1 or isinstance(got[0], tuple):
            return Fail('event:ack-count:%d:id=%s' % (len(got), 'zero' if eid == 0 else 'other'),
                        'id %r ret %r -> %r' % (eid, ret, [worlds.pk(p) for p in got]))
        a = got[0]
        exp_type = packet.BINARY_ACK if contains_bytes(ret) else packet.ACK
        if a.packet_type != exp_type or not (a.id == eid) or (a.namespace or '/') != ns:
            return Fail('event:ack-header', 'expected type %d id %r ns %r, got %r' % (exp_type, eid, ns, worlds.pk(a)))
        if not (a.data == ack_payload(ret)):
            return Fail('event:ack-payload:ret=%s' % type(ret).__name__, 'handler returned %r, ACK carries %r' % (ret, a.data))
    t.reached('events')
    return None


def parts(tier):
    out = []
    for a in (False, True):
        for who in WHO:
            if who == 'cls-plain-method' and not a:
                continue
            for ah in (False, True):
                n = 1 if tier == 'quick' else 2
                if tier == 'quick' and ah and who != 'fn':
                    continue
                out.append({'async': a, 'who': who, 'async_handlers': ah, 'n': n, 'full_second': tier != 'quick' and who == 'fn' and not ah,
                            'full_slots': tier != 'quick'})
    if tier == 'quick':
        # two consecutive events (order, per-client isolation) for the function-handler configuration
        out += [{'async': a, 'who': 'fn', 'async_handlers': False, 'n': 2, 'first': f} for a in (False, True) for f in range(4)]
        out += [{'async': a, 'who': 'fn', 'async_handlers': False, 'n': 2, 'first': f, 'boom_first': True}
                for a in (False, True) for f in range(3)]
    # every return value tree of depth <= 2, width <= 2 over {x, bytes} leaves
    out += [{'async': a, 'who': 'fn', 'async_handlers': False, 'n': 1, 'ret_trees': True, 'first': f} for a in (False, True) for f in range(3)]
    return out


CHECKS = [dict(name='events', fn=h, parts=parts, budget={'quick': 180, 'thorough': 1200}, per_path_s=20)]

META = dict(
    explanation='Real _handle_eio_message -> _handle_event -> _handle_event_internal -> _trigger_event of Server and '
                'AsyncServer (binary reassembly through the real Packet.add_attachment), with the responsible party, the '
                'id, the arguments and the handler\'s return value drawn from the tape.',
    bounds={'quick': 'one event (two for the function-handler configuration) from {e0:/ with the full product below; e0:/a, e1:/, e1:/a (not '
                     'connected)}; id in {None, 0, symbolic 1..2, 10^20}; arguments in {(), (x), (bytes, '
                     '{k:[x,bytes]})} with symbolic x; return in {None, x, 0, "", list, dict, tuple, bytes, dict->list->bytes} and every tree of depth <= 2, width <= 2 over {x, bytes}; responsible '
                     'party in %r; async_handlers in {False, True}' % (WHO,),
            'thorough': 'two consecutive events in every configuration (second event of fixed shape from any sender; full '
                        'product for function handlers)'},
    outside=['BINARY_EVENT declaring 0 attachments (never produced by an encoder)', 'handlers that raise (C11)',
             'async_handlers=True ordering (background tasks; only per-event claims are made there)'],
    stubs=['engine.io server -> FakeEio/FakeAEio (background tasks run inline / joined)', 'JSON text -> TokJson',
           'asyncio -> vf.miniloop (FIFO)', 'events with symbolic ids are injected at Packet.decode'],
    assumptions=[],
)
