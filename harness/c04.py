"""C04 Server connection lifecycle: accept/reject, disconnect handler exactly once."""
import socketio
from socketio import packet, exceptions

from vf import worlds, miniloop
from vf.tape import Fail, notrace
from harness.c11 import residue, comp

PROPERTY = 'C04'
ES = ['e0', 'e1']
NSS = ['/', '/a', '/zz']          # /zz is never served
BEHAVIOURS = ['accept', 'false', 'cre0', 'cre1', 'cre2', 'cre3']


def expected_refusal(beh, x):
    """what the refusal must carry (ConnectionRefusedError.error_args as documented)"""
    if beh in ('false', 'cre0'):
        return {'message': 'Connection rejected by server'}
    if beh == 'cre1':
        return {'message': 'no'}
    if beh == 'cre2':
        return {'message': 'no', 'data': x}          # the second argument as it is, falsy values included
    return {'message': 'no', 'data': [x, 'two']}


def build(t, part, chooser=None, handler_checkpoint=False):
    asyncio_ = part['async']
    log = {'connect': [], 'disconnect': [], 'next': None}

    def on_connect_body(sid, environ, auth, nargs):
        log['connect'].append((sid, environ, auth, nargs))
        beh, x = log['next'] or ('accept', 0)
        if beh == 'false':
            return False
        if beh == 'cre0':
            raise exceptions.ConnectionRefusedError()
        if beh == 'cre1':
            raise exceptions.ConnectionRefusedError('no')
        if beh == 'cre2':
            raise exceptions.ConnectionRefusedError('no', x)
        if beh == 'cre3':
            raise exceptions.ConnectionRefusedError('no', x, 'two')
        return None

    if asyncio_ and part.get('auth_required'):
        async def on_connect(sid, environ, auth):          # the auth argument is not optional: without a payload the
            return on_connect_body(sid, environ, auth, 3)    # server's first call fails and it retries with auth=None
    elif asyncio_:
        async def on_connect(sid, environ, auth=None):
            return on_connect_body(sid, environ, auth, 3)
    if asyncio_:
        async def on_disconnect(sid, reason):
            if handler_checkpoint:
                await miniloop.checkpoint('disconnect-handler')
            log['disconnect'].append((sid, reason))
    else:
        if part.get('auth_required'):
            def on_connect(sid, environ, auth):
                return on_connect_body(sid, environ, auth, 3)
        else:
            def on_connect(sid, environ, auth=None):
                return on_connect_body(sid, environ, auth, 3)

        def on_disconnect(sid, reason):
            log['disconnect'].append((sid, reason))
    kw = dict(async_handlers=False, always_connect=part['always_connect'])
    nsconf = part['nsconf']
    if nsconf == 'list':
        kw['namespaces'] = ['/', '/a']
    elif nsconf == 'star':
        kw['namespaces'] = '*'
    w = worlds.SWorld(asyncio_, chooser=chooser, **kw)
    served = ['/', '/a'] if nsconf != 'star' else ['/', '/a', '/zz']
    if part['classns']:
        base = socketio.AsyncNamespace if asyncio_ else socketio.Namespace
        if asyncio_ and part.get('plain_methods'):
            # an asyncio class namespace may define plain methods
            def oc(self, sid, environ, auth=None):
                return on_connect_body(sid, environ, auth, 3)

            def od(self, sid, reason):
                log['disconnect'].append((sid, reason))
        elif asyncio_:
            async def oc(self, sid, environ, auth=None):
                return on_connect_body(sid, environ, auth, 3)

            async def od(self, sid, reason):
                return await on_disconnect(sid, reason)
        else:
            def oc(self, sid, environ, auth=None):
                return on_connect_body(sid, environ, auth, 3)

            def od(self, sid, reason):
                return on_disconnect(sid, reason)
        cls = type('N', (base,), {'on_connect': oc, 'on_disconnect': od})
        for ns in (['/', '/a'] if nsconf != 'star' else ['*']):
            w.s.register_namespace(cls(ns))
        if nsconf == 'star':
            # a catch-all class namespace receives the namespace as first argument
            if asyncio_:
                async def oc2(self, ns, sid, environ, auth=None):
                    return on_connect_body(sid, environ, auth, 3)

                async def od2(self, ns, sid, reason):
                    return await on_disconnect(sid, reason)
            else:
                def oc2(self, ns, sid, environ, auth=None):
                    return on_connect_body(sid, environ, auth, 3)

                def od2(self, ns, sid, reason):
                    return on_disconnect(sid, reason)
            w.s.namespace_handlers.clear()
            w.s.register_namespace(type('N', (base,), {'on_connect': oc2, 'on_disconnect': od2})('*'))
    else:
        if nsconf == 'star':
            if asyncio_:
                async def oc3(ns, sid, environ, auth=None):
                    return on_connect_body(sid, environ, auth, 3)

                async def od3(ns, sid, reason):
                    return await on_disconnect(sid, reason)
            else:
                def oc3(ns, sid, environ, auth=None):
                    return on_connect_body(sid, environ, auth, 3)

                def od3(ns, sid, reason):
                    return on_disconnect(sid, reason)
            w.s.on('connect', oc3, namespace='*')
            w.s.on('disconnect', od3, namespace='*')
        else:
            for ns in ('/', '/a'):
                w.s.on('connect', on_connect, namespace=ns)
                w.s.on('disconnect', on_disconnect, namespace=ns)
            if part.get('catchall_event'):
                # something is registered on the catch-all namespace (an ordinary event): that does not make the server
                # serve namespaces it was not asked to serve
                if asyncio_:
                    async def anyns(ns, sid, *a):
                        return None
                else:
                    def anyns(ns, sid, *a):
                        return None
                w.s.on('ping', anyns, namespace='*')
    return w, log, served


# ---- A: sequential histories -----------------------------------------------------------------------------------
def h_hist(t, part):
    with notrace():
        w, log, served = build(t, part)
        for e in ES:
            w.open(e)
    conn = {(e, ns): None for e in ES for ns in NSS}
    alive = {e: True for e in ES}
    ever = set()
    if True:
        # e0 is already connected to the default namespace when the history starts
        with notrace():
            pre = w.connect('e0', '/')
            w.take('e0')
            del log['connect'][:]
        conn[('e0', '/')] = pre
        ever.add(pre)
    OPS = [('connect', 'e0', ns, b, auth) for ns in NSS for b in range(len(BEHAVIOURS)) for auth in (0, 1)
           if not (ns == '/zz' and (b > 1 or auth))] + [('connect', 'e1', '/', 0, 0), ('connect', 'e1', '/a', 0, 1)] + \
          [('client-disconnect', 'e0', ns) for ns in NSS[:2]] + \
          [('server-disconnect', 'e0', ns) for ns in NSS[:2]] + [('loss', e) for e in ES]
    OPS = [o for o in OPS if part.get('ops') is None or o[0] in part['ops']]
    if 'first' in part:
        t.force([part['first']])
    nontrivial = 0
    for step in range(part['n']):
        pool = OPS
        if step == 0 and 'slice' in part:
            m, k0 = part['slice']
            pool = [o_ for i_, o_ in enumerate(OPS) if i_ % m == k0]
        o = pool[t.choice(len(pool))]
        nc, nd = len(log['connect']), len(log['disconnect'])
        for e in ES:
            w.take(e)
        if o[0] == 'connect':
            _, e, ns, b, authk = o
            if not alive[e]:
                continue
            beh = BEHAVIOURS[b]
            x = t.int(0, 3)
            auth = {'token': x} if authk else None
            log['next'] = (beh, x)
            w.send(e, w.P(packet.CONNECT, data=auth, namespace=ns))
            log['next'] = None
            got = [worlds.pk(p) for p in w.take(e)]
            calls = log['connect'][nc:]
            if ns not in served or conn[(e, ns)] is not None:
                why = 'unserved' if ns not in served else 'repeated'
                if calls:
                    return Fail('lifecycle:%s-namespace-ran-handler' % why, repr(calls))
                if len(got) != 1 or got[0][0] != packet.CONNECT_ERROR or got[0][1] != ns:
                    return Fail('lifecycle:%s-namespace-not-refused' % why, repr(got))
                continue
            nontrivial += 1
            if len(calls) != 1:
                return Fail('lifecycle:connect-handler-count=%d' % len(calls), repr(calls))
            sid, environ, gauth, _ = calls[0]
            if not (gauth == auth):
                return Fail('lifecycle:connect-handler-auth', 'client sent %r, handler got %r' % (auth, gauth))
            if environ != {'E': e}:
                return Fail('lifecycle:connect-handler-environ', repr(environ))
            if sid in ever:
                return Fail('lifecycle:sid-reused', sid)
            ever.add(sid)
            if beh == 'accept':
                if got != [(packet.CONNECT, ns, None, {'sid': sid})]:
                    return Fail('lifecycle:accept-answer', repr(got))
                conn[(e, ns)] = sid
            else:
                ref = expected_refusal(beh, x)
                if part['always_connect']:
                    want = [(packet.CONNECT, ns, None, {'sid': sid}), (packet.DISCONNECT, ns, None, ref)]
                else:
                    want = [(packet.CONNECT_ERROR, ns, None, ref)]
                if not (got == want):
                    return Fail('lifecycle:refusal-answer:%s' % beh, 'got %r, expected %r' % (got, want))
                if w.s.manager.is_connected(sid, ns) or w.s.rooms(sid, ns):
                    return Fail('lifecycle:refused-keeps-membership', 'sid %s rooms %r' % (sid, w.s.rooms(sid, ns)))
                r = worlds.client_residue(w.s, [sid])
                if r:
                    return Fail('lifecycle:refused-keeps-membership', repr(r))
        elif o[0] in ('client-disconnect', 'server-disconnect'):
            _, e, ns = o
            if not alive[e]:
                continue
            sid = conn[(e, ns)]
            if o[0] == 'client-disconnect':
                w.send(e, w.P(packet.DISCONNECT, namespace=ns))
                reason = 'client disconnect'
            else:
                if sid is None:
                    continue
                w.call(w.s.disconnect(sid, namespace=ns))
                reason = 'server disconnect'
            calls = log['disconnect'][nd:]
            if sid is None:
                if calls:
                    return Fail('lifecycle:disconnect-handler-without-connection', repr(calls))
                continue
            nontrivial += 1
            if calls != [(sid, reason)]:
                return Fail('lifecycle:disconnect-handler:%s' % o[0], 'expected once (%s, %s), got %r' % (sid, reason, calls))
            got = [worlds.pk(p) for p in w.take(e)]
            if o[0] == 'server-disconnect' and got != [(packet.DISCONNECT, ns, None, None)]:
                return Fail('lifecycle:server-disconnect-packet', repr(got))
            conn[(e, ns)] = None
        else:
            e = o[1]
            if not alive[e]:
                continue
            w.lose(e, 'transport close')
            alive[e] = False
            calls = sorted(log['disconnect'][nd:])
            want = sorted((conn[(e, ns)], 'transport close') for ns in NSS if conn[(e, ns)])
            if calls != want:
                return Fail('lifecycle:disconnect-handler:transport-loss', 'expected %r got %r' % (want, calls))
            if want:
                nontrivial += 1
            for ns in NSS:
                conn[(e, ns)] = None
        # whoever ended is gone; everybody else is untouched
        for (e, ns), sid in conn.items():
            if sid is not None and not w.s.manager.is_connected(sid, ns):
                return Fail('lifecycle:other-connection-affected', '%s %s after %r' % (e, ns, o))
        for sid in ever - {s for s in conn.values() if s}:
            for ns in NSS:
                if w.s.manager.is_connected(sid, ns) or w.s.rooms(sid, ns):
                    return Fail('lifecycle:ended-session-still-known', '%s on %s after %r' % (sid, ns, o))
    # a trailing broadcast per namespace reaches exactly the live sessions, once each
    for e in ES:
        w.take(e)
    for ns in served:
        w.call(w.s.emit('bye', 1, namespace=ns))
        for e in ES:
            got = [worlds.pk(p) for p in w.take(e)]
            want = [(packet.EVENT, ns, None, ['bye', 1])] if conn[(e, ns)] and alive[e] else []
            if got != want:
                return Fail('lifecycle:broadcast-after-history', '%s on %s: got %r expected %r' % (e, ns, got, want))
    if nontrivial:
        t.reached('history')
    return None


# ---- B: asyncio, concurrent terminating causes, all interleavings ------------------------------------------------------
CAUSES = ['server.disconnect', 'client-DISCONNECT', 'transport-loss', 'server.disconnect-other-namespace']


def h_race(t, part):
    causes = part['causes']
    with notrace():
        w, log, served = build(t, dict(part, **{'async': True, 'nsconf': 'default', 'classns': False}),
                               handler_checkpoint=True)
        w.open('e0')
        w.open('e1')
        if part.get('bystander_refused'):
            w.open('e2')
        sid = w.connect('e0', '/')
        sid_a = w.connect('e0', '/a')
        other = w.connect('e1', '/')
        w.call(w.s.enter_room(sid, 'room'))
        for e in ES:
            w.take(e)
        loop = w.drv.loop
    loop.chooser = lambda n: t.choice(n)

    def cause(c):
        if c == 'server.disconnect':
            return w.s.disconnect(sid)
        if c == 'client-DISCONNECT':
            return w.eio.recv('e0', w.P(packet.DISCONNECT, namespace='/').encode())
        if c == 'transport-loss':
            return w.eio.lose('e0', 'transport close')
        return w.s.disconnect(sid_a, namespace='/a')
    if part.get('bystander_refused'):
        # (the ready queue is FIFO and every task is ready at once, so the second cause gets an arrival of its own: an
        # I/O wait that the scheduler completes whenever it likes - otherwise it would always have looked at the
        # session before anything the bystander's CONNECT leads to)
        async def late(c):
            await miniloop.checkpoint('arrival')
            return await cause(c)
        log['next'] = ('false', 0)
        tasks = [miniloop.create_task(cause(causes[0]), causes[0]),
                 miniloop.create_task(w.eio.recv('e2', w.P(packet.CONNECT, namespace='/').encode()), 'bystander-refused'),
                 miniloop.create_task(late(causes[1]), causes[1])]
    else:
        tasks = [miniloop.create_task(cause(c), c) for c in causes]
    served = []
    if part.get('bystander_event'):
        async def on_ev(sid_, *a):
            served.append((sid_, a))
        w.s.on('ev', on_ev)
        tasks.append(miniloop.create_task(w.eio.recv('e1', w.P(packet.EVENT, data=['ev', 1]).encode()), 'bystander-event'))
    if part.get('bystander_disconnect'):
        tasks.append(miniloop.create_task(w.eio.recv('e1', w.P(packet.DISCONNECT).encode()), 'bystander-disconnect'))
    if part.get('bystander_refused'):
        # a third transport asks for the same namespace meanwhile and is refused by the connect handler (the roll-back
        # of a refusal is the one manager.disconnect() that is not preceded by pre_disconnect())
        pass        # (its task was created among the causes above)
    if 'pre' in part:
        t.force(part['pre'])
    try:
        loop.drain()
    except miniloop.Deadlock as ex:
        return Fail('lifecycle:race:deadlock', str(ex))
    except miniloop.StepBudget as ex:
        return Fail('lifecycle:race:schedule-bound-exceeded', str(ex))
    t.reached('race')
    t.note(causes, 'decisions', loop.decisions)
    excs = [(tk.name, tk.exc) for tk in tasks if tk.exc is not None] + [('engine.io-contained', x[1]) for x in w.eio.contained]
    if excs:
        return Fail('lifecycle:race:exception:%s' % type(excs[0][1]).__name__, repr(excs))
    if part.get('bystander_disconnect'):
        mine_b = [c for c in log['disconnect'] if c[0] == other]
        if len(mine_b) != 1 or w.s.manager.is_connected(other, '/'):
            return Fail('lifecycle:race:bystander-disconnect-lost', 'another client\'s DISCONNECT during the termination: '
                        'handler calls %r, still connected %r' % (mine_b, w.s.manager.is_connected(other, '/')))
        return None
    if part.get('bystander_event') and served != [(other, (1,))]:
        return Fail('lifecycle:race:bystander-event-lost', 'an event of another client during the termination: handled %r; trace %r' % (
            served, loop.trace))
    mine = [c for c in log['disconnect'] if c[0] == sid]
    reasons = {'server.disconnect': 'server disconnect', 'client-DISCONNECT': 'client disconnect',
               'transport-loss': 'transport close'}
    if len(mine) != 1:
        return Fail('lifecycle:race:handler-count=%d' % len(mine), 'causes %r calls %r trace %r' % (causes, log['disconnect'], loop.trace))
    if mine[0][1] not in {reasons[c] for c in causes if c in reasons}:
        return Fail('lifecycle:race:reason', repr(mine))
    ends_a = 'transport-loss' in causes or 'server.disconnect-other-namespace' in causes
    na = len([c for c in log['disconnect'] if c[0] == sid_a])
    if na != (1 if ends_a else 0):
        return Fail('lifecycle:race:other-namespace-handler-count=%d' % na, repr(log['disconnect']))
    r = residue(w, 'e0' if 'transport-loss' in causes else None, [sid] + ([sid_a] if ends_a else []))
    if r:
        return Fail('lifecycle:race:residue:%s' % comp(r), repr(r))
    if not ends_a and not w.s.manager.is_connected(sid_a, '/a'):
        return Fail('lifecycle:race:other-namespace-affected', '')
    if not w.s.manager.is_connected(other, '/'):
        return Fail('lifecycle:race:other-client-affected', '')
    # never delivered to again
    w.drv.loop.chooser = lambda n: 0
    for e in ES:
        w.take(e)
    w.call(w.s.emit('bye', 1, room='room'))
    w.call(w.s.emit('bye', 2))
    got0 = [worlds.pk(p) for p in w.take('e0')]
    got1 = [worlds.pk(p) for p in w.take('e1')]
    if got0 or got1 != [(packet.EVENT, '/', None, ['bye', 2])]:
        return Fail('lifecycle:race:delivered-after-end', 'e0 %r e1 %r' % (got0, got1))
    return None


def hist_parts(tier):
    out = []
    n = 2 if tier == 'quick' else 3
    for a in (False, True):
        for ac in (False, True):
            for nsconf, classns in (('default', False), ('list', True), ('star', False), ('star', True), ('default', True)):
                if tier == 'quick' and (nsconf, classns) in (('star', True), ('default', True)) and ac:
                    continue
                for k0 in range(4):
                    out.append({'async': a, 'always_connect': ac, 'nsconf': nsconf, 'classns': classns, 'n': n, 'slice': [4, k0]})
            for k0 in range(4):
                out.append({'async': a, 'always_connect': ac, 'nsconf': 'default', 'classns': False, 'auth_required': True,
                            'n': n - 1, 'slice': [4, k0]})
            if not ac:
                for nsconf in ('default', 'list'):
                    out.append({'async': a, 'always_connect': ac, 'nsconf': nsconf, 'classns': False, 'catchall_event': True,
                                'n': 1})
            if a:
                for k0 in range(4):
                    out.append({'async': a, 'always_connect': ac, 'nsconf': 'list', 'classns': True, 'plain_methods': True, 'n': n,
                                'slice': [4, k0]})
    return out


def race_parts(tier):
    pairs = [['server.disconnect', 'client-DISCONNECT'], ['server.disconnect', 'transport-loss'],
             ['client-DISCONNECT', 'transport-loss'], ['server.disconnect', 'server.disconnect'],
             ['server.disconnect', 'server.disconnect-other-namespace'], ['client-DISCONNECT', 'client-DISCONNECT']]
    out = [{'causes': p, 'always_connect': False} for p in pairs]
    out += [{'causes': [c], 'always_connect': False, 'bystander_event': True}
            for c in ('server.disconnect', 'client-DISCONNECT', 'transport-loss')]
    out += [{'causes': [c], 'always_connect': False, 'bystander_disconnect': True}
            for c in ('server.disconnect', 'client-DISCONNECT', 'transport-loss')]
    out += [{'causes': p, 'always_connect': False, 'bystander_refused': True, 'pre': [a, b, c]} for p in pairs[:4]
            for a in range(2) for b in range(2) for c in range(2)]
    if tier != 'quick':
        out += [{'causes': ['server.disconnect', 'client-DISCONNECT', 'transport-loss'], 'always_connect': False},
                {'causes': ['server.disconnect', 'transport-loss', 'server.disconnect-other-namespace'], 'always_connect': False}]
    return out


CHECKS = [
    dict(name='history', fn=h_hist, parts=hist_parts, budget={'quick': 180, 'thorough': 1500}, per_path_s=20),
    dict(name='asyncio-races', fn=h_race, parts=race_parts, budget={'quick': 180, 'thorough': 900}, per_path_s=30),
]

META = dict(
    explanation='Real _handle_connect / _handle_disconnect / disconnect() / _handle_eio_disconnect of Server and '
                'AsyncServer with the real Manager, against a reference lifecycle written from the property; for the '
                'asyncio server two (thorough: three) terminating causes run as concurrent tasks with suspension points '
                'in every engine.io send and inside the disconnect handler, and every schedule is explored.',
    bounds={'quick': 'histories of 2 operations from {CONNECT(e, ns in {/, /a, unserved /zz}, handler behaviour in '
                     '{accept, return False, ConnectionRefusedError with 0/1/2/3 arguments}, auth None or {token: x}), '
                     'client DISCONNECT, server.disconnect, transport loss} over 2 transports; always_connect {F,T}; '
                     'namespaces {implied by handlers, explicit list, "*"}; function handlers / class-based namespaces; '
                     'all schedules of 6 pairs of concurrent terminating causes on the asyncio server',
            'thorough': 'histories of 3 operations; plus two triples of concurrent causes'},
    outside=['handlers raising other exceptions (C11)', 'events named connect/disconnect', 'threaded races (C20)'],
    stubs=['engine.io server -> FakeEio/FakeAEio (every send is a suspension point on asyncio)', 'JSON text -> TokJson',
           'asyncio -> vf.miniloop'],
    assumptions=[],
)
