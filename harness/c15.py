"""C15 The pub/sub listener survives anything that arrives on the channel."""
import asyncio as real_asyncio
import json
import pickle

import socketio
from socketio import packet

from vf import worlds, miniloop, stubs
from vf.tape import Fail, notrace

PROPERTY = 'C15'
RAISE = object()


class Boom(RuntimeError):
    pass


def make_manager(asyncio_):
    import socketio.async_pubsub_manager
    import socketio.pubsub_manager
    base = socketio.async_pubsub_manager.AsyncPubSubManager if asyncio_ else socketio.pubsub_manager.PubSubManager

    if asyncio_:
        class M(base):
            def __init__(self):
                super().__init__()       # default: no logger of its own (falls back to the server's)
                self.chan, self.cursor, self.published, self.listens = [], 0, [], 0

            async def _publish(self, data):
                self.published.append(data)

            async def _listen(self):
                self.listens += 1
                while self.cursor < len(self.chan):
                    item = self.chan[self.cursor]
                    self.cursor += 1
                    if item is RAISE:
                        raise RuntimeError('the backend lost its connection')
                    yield item
    else:
        class M(base):
            def __init__(self):
                super().__init__()       # default: no logger of its own (falls back to the server's)
                self.chan, self.cursor, self.published, self.listens = [], 0, [], 0

            def _publish(self, data):
                self.published.append(data)

            def _listen(self):
                self.listens += 1
                while self.cursor < len(self.chan):
                    item = self.chan[self.cursor]
                    self.cursor += 1
                    if item is RAISE:
                        raise RuntimeError('the backend lost its connection')
                    yield item
    return M()


KINDS = ['valid-emit', 'own-echo', 'foreign-ack', 'ack-without-host', 'ack-unknown-id', 'ack-raising-callback',
         'ack-cancelled-callback', 'garbage-bytes', 'non-dict', 'missing-fields', 'wrong-types', 'unknown-method',
         'emit-that-raises', 'listen-raises', 'valid-room-ops', 'ack-missing-args', 'remote-disconnect-handler-fails']
ENCODINGS = ['dict', 'pickle', 'json-str', 'json-bytes']


def encode(msg, enc):
    if enc == 'dict':
        return msg
    if enc == 'pickle':
        return pickle.dumps(msg)
    if enc == 'json-str':
        return json.dumps(msg)
    return json.dumps(msg).encode()


def h(t, part):
    asyncio_ = part['async']
    n = part['n']
    if 'first' in part:
        t.force([part['first']])
    plan = []
    for k in range(n):
        kind = KINDS[t.choice(len(KINDS))]
        if k == 0 or part.get('full'):
            enc = ENCODINGS[t.choice(len(ENCODINGS))]
            variant = t.choice(4)
        else:
            enc = ENCODINGS[t.choice(2)]
            variant = t.choice(2)
        plan.append((kind, enc, variant))
    with notrace():
        m = make_manager(asyncio_)
        w = worlds.SWorld(asyncio_, client_manager=m, async_handlers=False)
        w.eio.bg_inline = False         # the listener is started by the harness, once the channel is filled
        if asyncio_:
            async def oc(sid, environ):
                return None
            w.eio.start_background_task = lambda target, *a, **kw: None
        else:
            def oc(sid, environ):
                return None
        w.s.on('connect', oc)
        # a second local client on a namespace served by a class-based namespace whose disconnect handler fails
        dmode = {'legacy': False, 'how': 'boom'}
        import socketio as _sio
        if asyncio_:
            class C(_sio.AsyncNamespace):
                async def on_connect(self, sid, environ):
                    return None

                async def on_disconnect(self, sid, *reason):
                    if dmode['legacy'] and reason:
                        raise TypeError('on_disconnect() takes 2 positional arguments but 3 were given')
                    if dmode['how'] == 'cancelled':
                        raise real_asyncio.CancelledError()
                    raise Boom('disconnect handler')
        else:
            class C(_sio.Namespace):
                def on_connect(self, sid, environ):
                    return None

                def on_disconnect(self, sid, *reason):
                    if dmode['legacy'] and reason:
                        raise TypeError('on_disconnect() takes 2 positional arguments but 3 were given')
                    raise Boom('disconnect handler')
        w.s.register_namespace(C('/c'))
        w.open('e0')
        sid = w.connect('e0', '/')
        w.open('e1')
        sid_c = w.connect('e1', '/c')
        w.take('e1')
        cbs = []
        raising = {'mode': None}

        def cb(*a):
            cbs.append(a)
            if raising['mode'] == 'boom':
                raise Boom('callback')

        async def acb(*a):
            cbs.append(a)
            if raising['mode'] == 'boom':
                raise Boom('callback')
            if raising['mode'] == 'cancelled':
                raise real_asyncio.CancelledError()
        # one outstanding callback per planned message that may complete it (ids 1..n), issued through the manager
        for k in range(n + 1):
            w.call(w.s.emit('q', k, to=sid, callback=acb if asyncio_ else cb))
        w.take('e0')
        del m.published[:]
        me, other = m.host_id, 'another-host'
        expect = {'sentinels': [], 'echoes': 0, 'cb_calls': []}
        # ids under which the application callbacks are registered (the relay partials take ids of their own)
        app_ids = sorted(i for i, f in m.callbacks.get(sid, {}).items() if f in (cb, acb))
        ack_id = [app_ids[0]]
        nxt = [0]

        def sentinel(k):
            expect['sentinels'].append('sentinel-%d' % k)
            return {'method': 'emit', 'event': 'sentinel-%d' % k, 'data': k, 'namespace': '/', 'room': None,
                    'skip_sid': None, 'callback': None, 'host_id': other}
        boom_send = {'on': None}
        for k, (kind, enc, v) in enumerate(plan):
            if kind == 'valid-emit':
                expect['sentinels'].append('valid-%d' % k)
                m.chan.append(encode({'method': 'emit', 'event': 'valid-%d' % k, 'data': [1, 'x'], 'namespace': '/',
                                      'room': sid if v % 2 else None, 'skip_sid': None, 'callback': None, 'host_id': other}, enc))
            elif kind == 'own-echo':
                m.chan.append(encode({'method': ['emit', 'enter_room', 'close_room', 'disconnect'][v], 'event': 'echo', 'data': 1,
                                      'namespace': '/', 'room': None if v == 0 else 'lobby', 'sid': sid, 'skip_sid': None,
                                      'callback': None, 'host_id': me}, enc))
            elif kind == 'foreign-ack':
                m.chan.append(encode({'method': 'callback', 'host_id': other, 'sid': sid, 'namespace': '/', 'id': ack_id[0],
                                      'args': ['stolen']}, enc))
            elif kind == 'ack-without-host':
                msg = {'method': 'callback', 'sid': sid, 'namespace': '/', 'id': ack_id[0], 'args': ['stolen']}
                if v % 2:
                    msg['host_id'] = None
                m.chan.append(encode(msg, enc))
            elif kind == 'ack-unknown-id':
                m.chan.append(encode({'method': 'callback', 'host_id': me, 'sid': sid if v % 2 else 'nobody', 'namespace': '/',
                                      'id': 999, 'args': [1]}, enc))
            elif kind in ('ack-raising-callback', 'ack-cancelled-callback'):
                if kind == 'ack-cancelled-callback' and not asyncio_:
                    continue
                raising['mode'] = 'boom' if kind == 'ack-raising-callback' else 'cancelled'
                expect['cb_calls'].append(('own', ack_id[0]))
                m.chan.append(encode({'method': 'callback', 'host_id': me, 'sid': sid, 'namespace': '/', 'id': ack_id[0],
                                      'args': ['own', ack_id[0]]}, enc))
                nxt[0] += 1
                ack_id[0] = app_ids[nxt[0]]
            elif kind == 'garbage-bytes':
                m.chan.append([b'\x80\x04\x95garbage', b'{"method": "emit"', b'', b'\xff\xfe\x00'][v])
            elif kind == 'non-dict':
                val = [5, [1, 2], 'some method name', None][v]
                m.chan.append(val if enc == 'dict' and v != 3 else encode(val, 'pickle' if enc == 'dict' else enc))
            elif kind == 'missing-fields':
                m.chan.append(encode([{'method': 'emit', 'host_id': other}, {'method': 'callback', 'host_id': me},
                                      {'event': 'x', 'data': 1}, {'method': 'enter_room', 'host_id': other}][v], enc))
            elif kind == 'wrong-types':
                m.chan.append(encode([{'method': 5, 'host_id': other}, {'method': 'emit', 'event': 'e', 'data': 1, 'namespace': 7,
                                                                        'room': 3, 'host_id': other},
                                      {'method': 'leave_room', 'sid': [1], 'namespace': {}, 'room': None, 'host_id': other},
                                      {'method': 'callback', 'host_id': me, 'sid': sid, 'id': 'one', 'args': 5}][v], enc))
            elif kind == 'unknown-method':
                m.chan.append(encode({'method': ['explode', '', 'EMIT', 'emit '][v], 'host_id': other, 'event': 'x'}, enc))
            elif kind == 'emit-that-raises':
                boom_send['on'] = 'raise-%d' % k
                boom_send['cancelled'] = asyncio_ and v % 2 == 1      # asyncio: the write is cancelled
                m.chan.append(encode({'method': 'emit', 'event': 'raise-%d' % k, 'data': 1, 'namespace': '/', 'room': None,
                                      'skip_sid': None, 'callback': None, 'host_id': other}, enc))
            elif kind == 'listen-raises':
                m.chan.append(RAISE)
            elif kind == 'valid-room-ops':
                m.chan.append(encode({'method': 'enter_room', 'sid': sid, 'namespace': '/', 'room': 'lobby-%d' % k,
                                      'host_id': other}, enc))
                expect.setdefault('rooms', []).append('lobby-%d' % k)
            elif kind == 'remote-disconnect-handler-fails':
                # another host asks for the disconnection of a local client; the application's handler for it fails
                dmode['legacy'] = bool(v % 2)
                dmode['how'] = 'cancelled' if (asyncio_ and v >= 2) else 'boom'
                m.chan.append(encode({'method': 'disconnect', 'sid': sid_c, 'namespace': '/c', 'host_id': other}, enc))
            elif kind == 'ack-missing-args':
                m.chan.append(encode({'method': 'callback', 'host_id': me, 'sid': sid, 'namespace': '/', 'id': ack_id[0]}, enc))
            m.chan.append(sentinel(k))
        # a server operation that raises for one particular message
        orig_send = w.s._send_eio_packet

        def boom_sender(eio_sid, pkt, orig=orig_send):
            hit = False
            if boom_send['on'] and isinstance(pkt.data, str):
                try:
                    d = w.P(encoded_packet=pkt.data).data
                    hit = isinstance(d, list) and d and d[0] == boom_send['on']
                except Exception:
                    hit = False
            if hit:
                boom_send['hits'] = boom_send.get('hits', 0) + 1
                if asyncio_:
                    async def f():
                        if boom_send.get('cancelled'):
                            raise real_asyncio.CancelledError()
                        raise Boom('send')
                    return f()
                raise Boom('send')
            return orig(eio_sid, pkt)
        w.s._send_eio_packet = boom_sender
        # ---- run the real listener over the channel ------------------------------------------------------------------
        died = None
        try:
            w.call(m._thread())
            w.finish()
        except BaseException as e:       # noqa: the listener must not die of anything a message can cause
            died = e
        got = [p.data[0] for p in w.take('e0') if not isinstance(p, tuple) and p.packet_type == packet.EVENT]
        t.reached('listener')
        t.note(plan)
        if boom_send['on'] and not boom_send.get('hits'):
            return Fail('harness:fault-not-injected', 'the raising server operation was never reached: plan %r' % (plan,))
        if died is not None:
            return Fail('listener:died:%s' % type(died).__name__, 'plan %r: %r' % (plan, died))
        if m.cursor != len(m.chan):
            return Fail('listener:stopped-reading', 'read %d of %d channel items; plan %r' % (m.cursor, len(m.chan), plan))
        missing = [s for s in expect['sentinels'] if got.count(s) != 1]
        if missing:
            return Fail('listener:message-after-bad-one-lost', 'plan %r: expected once each %r, delivered %r' % (
                plan, expect['sentinels'], got))
        if 'echo' in got:
            return Fail('listener:own-message-reapplied', repr(got))
        if not w.s.manager.is_connected(sid, '/') or 'lobby' in w.s.rooms(sid):
            return Fail('listener:own-message-reapplied', 'rooms %r connected %r' % (w.s.rooms(sid), w.s.manager.is_connected(sid, '/')))
        for r in expect.get('rooms', []):
            if r not in w.s.rooms(sid):
                return Fail('listener:valid-room-op-lost', r)
        want = [('own', i) for _, i in expect['cb_calls']]
        if [tuple(c) for c in cbs] != want:
            stolen = [c for c in cbs if c and c[0] == 'stolen']
            return Fail('listener:foreign-ack-completed-callback' if stolen else 'listener:callback-invocations',
                        'plan %r: callbacks invoked with %r, expected %r' % (plan, cbs, want))
    return None


def parts(tier):
    n = 1 if tier == 'quick' else 2
    out = [{'async': a, 'n': n, 'first': f, 'full': tier != 'quick'} for a in (False, True) for f in range(len(KINDS))]
    if tier == 'quick':
        out += [{'async': a, 'n': 2, 'first': f} for a in (False, True) for f in (13, 5, 12)]    # faults followed by anything
    return out


# ---- the bundled Redis backends' retry loops, driven by a fake of the client library -----------------------------------------
class EndOfPlan(BaseException):
    """the fake broker has nothing more to deliver and the listener is blocked in listen() on a subscribed connection"""


class Spin(BaseException):
    """listen() was called far more often than the plan can explain"""


R_EVENTS = ['msg', 'other-channel', 'other-type', 'no-data', 'drop', 'crash', 'non-dict-payload']


def fake_redis(asyncio_, st):
    """redis-py as the managers use it (written from redis-py 4/5: from_url() connects lazily; subscribe() and publish() raise
    ConnectionError while the server is unreachable; listen() runs `while self.subscribed`, so it returns at once on a
    connection that never subscribed; subscribe confirmations are dropped under ignore_subscribe_messages=True)."""
    class RedisError(Exception):
        pass

    class ConnectionError(RedisError):
        pass

    def emit_msg(name):
        return pickle.dumps({'method': 'emit', 'event': name, 'data': 1, 'namespace': '/', 'room': None, 'skip_sid': None,
                             'callback': None, 'host_id': 'another-host'})

    class PubSub:
        def __init__(self):
            self.channels = set()
            self.broken = False
            st['pubsubs'] += 1

        def _subscribe(self, ch):
            st['subscribes'] += 1
            if st['down'] > 0:
                st['down'] -= 1
                raise ConnectionError('cannot connect')
            self.broken = False
            self.channels.add(ch)

        def _step(self):
            """one blocking read: a message dict, None (nothing for the caller) or an exception"""
            if self.broken:
                raise ConnectionError('connection lost')
            if st['pos'] >= len(st['plan']):
                raise EndOfPlan()
            ev, f = st['plan'][st['pos']]
            st['pos'] += 1
            ch = next(iter(self.channels)).encode()
            if ev == 'msg':
                name = 'sentinel-%d' % st['pos']
                st['expect'].append(name)
                return {'type': 'message', 'pattern': None, 'channel': ch, 'data': emit_msg(name)}
            if ev == 'other-channel':
                return {'type': 'message', 'pattern': None, 'channel': b'somebody-elses', 'data': emit_msg('intruder')}
            if ev == 'other-type':
                return {'type': 'pmessage', 'pattern': b'*', 'channel': ch, 'data': emit_msg('intruder')}
            if ev == 'no-data':
                return {'type': 'message', 'pattern': None, 'channel': ch}
            if ev == 'non-dict-payload':
                # `'method' in 5` raises outside the per-message handler: the listener restarts _listen() and drops the old
                # generator while the connection stays subscribed
                return {'type': 'message', 'pattern': None, 'channel': ch, 'data': pickle.dumps(5)}
            if ev == 'drop':
                self.broken = True
                st['down'] = f
                st['expect_sleeps'] += [min(2 ** i, 60) for i in range(f + 1)]
                raise ConnectionError('connection lost')
            raise RuntimeError('the client library raised something that is not a RedisError')

        def _enter(self):
            st['listens'] += 1
            if st['listens'] > 4 * len(st['plan']) + 8 + sum(f for _, f in st['plan']):
                raise Spin()

    if asyncio_:
        class APubSub(PubSub):
            async def subscribe(self, ch):
                self._subscribe(ch)

            async def unsubscribe(self, ch):
                self.channels.discard(ch)

            async def listen(self):
                self._enter()
                while self.channels:
                    await miniloop.sleep(0)
                    if not self.channels:
                        break               # an UNSUBSCRIBE was processed while this read was blocked
                    m = self._step()
                    if m is not None:
                        yield m

        class Redis:
            @classmethod
            def from_url(cls, url, **kw):
                st['connects'] += 1
                return cls()

            def pubsub(self, ignore_subscribe_messages=False):
                return APubSub()

            async def publish(self, ch, data):
                st['publish_attempts'] += 1
                if st['publish_down'] > 0:
                    st['publish_down'] -= 1
                    raise ConnectionError('cannot publish')
                st['published'].append((ch, data))
                return 1
    else:
        class SPubSub(PubSub):
            def subscribe(self, ch):
                self._subscribe(ch)

            def unsubscribe(self, ch):
                self.channels.discard(ch)

            def listen(self):
                self._enter()
                while self.channels:
                    m = self._step()
                    if m is not None:
                        yield m

        class Redis:
            @classmethod
            def from_url(cls, url, **kw):
                st['connects'] += 1
                return cls()

            def pubsub(self, ignore_subscribe_messages=False):
                return SPubSub()

            def publish(self, ch, data):
                st['publish_attempts'] += 1
                if st['publish_down'] > 0:
                    st['publish_down'] -= 1
                    raise ConnectionError('cannot publish')
                st['published'].append((ch, data))
                return 1
    import types
    ex = types.SimpleNamespace(RedisError=RedisError, ConnectionError=ConnectionError)
    return types.SimpleNamespace(Redis=Redis, exceptions=ex, RedisError=RedisError)


def redis_world(asyncio_, st):
    import types
    import socketio.redis_manager
    import socketio.async_redis_manager
    fake = fake_redis(asyncio_, st)

    def rec(s):
        st['sleeps'].append(s)
    if asyncio_:
        mod = socketio.async_redis_manager
        mod.aioredis = fake
        mod.RedisError = fake.RedisError

        async def asleep(s=0):
            rec(s)
            await miniloop.sleep(0)
        mod.asyncio = types.SimpleNamespace(sleep=asleep)
        m = mod.AsyncRedisManager('redis://broker')
    else:
        mod = socketio.redis_manager
        mod.redis = fake
        mod.time = types.SimpleNamespace(sleep=rec)
        mod.logger = stubs.NULL_LOGGER
        m = mod.RedisManager('redis://broker')
    w = worlds.SWorld(asyncio_, client_manager=m, async_handlers=False)
    w.eio.bg_inline = False
    if asyncio_:
        async def oc(sid, environ):
            return None
        w.eio.start_background_task = lambda target, *a, **kw: None
    else:
        def oc(sid, environ):
            return None
    w.s.on('connect', oc)
    w.open('e0')
    sid = w.connect('e0', '/')
    w.take('e0')
    return w, m, sid


def new_state(plan):
    return dict(plan=plan, pos=0, down=0, pubsubs=0, subscribes=0, listens=0, connects=0, sleeps=[], expect=[],
                expect_sleeps=[], publish_attempts=0, publish_down=0, published=[])


def h_redis(t, part):
    asyncio_ = part['async']
    if 'first' in part:
        t.force([part['first']])
    plan = []
    for k in range(part['n']):
        ev = R_EVENTS[t.choice(len(R_EVENTS))]
        f = t.choice(part['maxf'] + 1) if ev == 'drop' else 0
        plan.append((ev, f))
    plan.append(('msg', 0))            # whatever happened, the next message must still be processed
    with notrace():
        st = new_state(plan)
        w, m, sid = redis_world(asyncio_, st)
        ended = None
        try:
            w.call(m._thread())
            ended = 'returned'
        except EndOfPlan:
            ended = 'listening'
        except Spin:
            ended = 'spinning'
        except BaseException as e:      # noqa
            ended = e
        got = [p.data[0] for p in w.take('e0') if not isinstance(p, tuple) and p.packet_type == packet.EVENT]
        t.reached('redis')
        t.note(plan)
        if ended == 'spinning':
            return Fail('redis:listener-spins', 'plan %r: listen() called %d times, %d subscribe calls, %d connections; delivered %r'
                        % (plan, st['listens'], st['subscribes'], st['connects'], got))
        if ended != 'listening':
            return Fail('redis:listener-ended', 'plan %r: the listening loop ended (%r) after %d of %d broker events' % (
                plan, ended, st['pos'], len(plan)))
        if got != st['expect']:
            return Fail('redis:messages', 'plan %r: expected %r in this order, the client received %r' % (plan, st['expect'], got))
        if st['sleeps'] != st['expect_sleeps']:
            return Fail('redis:back-off', 'plan %r: waits %r, expected %r (doubling from 1, capped at 60, reset by a successful '
                        'reconnection)' % (plan, st['sleeps'], st['expect_sleeps']))
    return None


def h_redis_publish(t, part):
    """publish(): one silent retry on a fresh connection, then give up quietly; a later message is not affected"""
    asyncio_ = part['async']
    fails = [t.choice(4), t.choice(4)]
    with notrace():
        st = new_state([])
        w, m, sid = redis_world(asyncio_, st)
        outcome = []
        for j, f in enumerate(fails):
            st['publish_down'] = f
            a0, c0, p0 = st['publish_attempts'], st['connects'], len(st['published'])
            try:
                w.call(w.s.emit('ev-%d' % j, j, namespace='/'))
            except Exception as e:
                return Fail('redis:publish-raised:%s' % type(e).__name__, 'publishing with %d failing attempts: %r' % (f, e))
            att, con, pub = st['publish_attempts'] - a0, st['connects'] - c0, len(st['published']) - p0
            outcome.append((f, att, con, pub))
            st['publish_down'] = 0
            want = (1, 0, 1) if f == 0 else (2, 1, 1) if f == 1 else (2, 1, 0)
            if (att, con, pub) != want:
                return Fail('redis:publish-retry', 'message %d with %d failing attempts: %d attempts, %d reconnections, published '
                            '%d times; expected %r (history %r)' % (j, f, att, con, pub, want, outcome))
        t.reached('redis-publish')
        names = [pickle.loads(d)['event'] for _, d in st['published']]
        want = ['ev-%d' % j for j, f in enumerate(fails) if f < 2]
        if names != want:
            return Fail('redis:publish-content', 'published %r, expected %r' % (names, want))
    return None


def redis_parts(tier):
    out = []
    for a in (False, True):
        if tier == 'quick':
            out += [{'async': a, 'n': 2, 'maxf': 2, 'first': f} for f in range(len(R_EVENTS))]
            out += [{'async': a, 'n': 1, 'maxf': 8, 'first': R_EVENTS.index('drop')}]
        else:
            out += [{'async': a, 'n': 3, 'maxf': 3, 'first': f} for f in range(len(R_EVENTS))]
            out += [{'async': a, 'n': 2, 'maxf': 8, 'first': R_EVENTS.index('drop')}]
    return out


CHECKS = [dict(name='listener', fn=h, parts=parts, budget={'quick': 180, 'thorough': 900}, per_path_s=20),
          dict(name='redis-listen', fn=h_redis, parts=redis_parts, budget={'quick': 60, 'thorough': 300}, per_path_s=20),
          dict(name='redis-publish', fn=h_redis_publish, parts=lambda tier: [{'async': False}, {'async': True}],
               budget={'quick': 30, 'thorough': 60}, per_path_s=20)]

META = dict(
    explanation='The real PubSubManager._thread / AsyncPubSubManager._thread consumes a channel filled with tape-chosen '
                'items (valid messages from another host, own-host echoes, acknowledgements for another host / without a '
                'host / for unknown ids / with missing arguments, garbage bytes, pickles and JSON of non-dicts, dicts with '
                'missing or wrong-typed fields, unknown methods) in four encodings (dict, pickle, JSON str, JSON bytes), '
                'with faults (the application callback raises or is cancelled, a server operation raises, the backend\'s '
                'listen iterator raises and is restarted); after every item a valid sentinel emit must be delivered '
                'exactly once, echoes must not be re-applied and no foreign acknowledgement may complete a local callback. '
                'Everything here is concrete once the solver has chosen the plan: the solver enumerates plans. '
                'redis-listen / redis-publish: the real RedisManager / AsyncRedisManager (built on a fake of the redis client '
                'library installed as the module global) run their real listening loop against a broker script of messages '
                '(own channel, other channel, other type, without data, a pickled non-dict), connection drops followed by f failing '
                'reconnections, and a non-Redis error of the library; the loop must end blocked in listen() on a subscribed '
                'connection, every message delivered while subscribed must reach the client once and in order, and the waits '
                'must double from 1 s, stay capped at 60 s and restart at 1 s after a successful reconnection; publish() '
                'retries once on a fresh connection, then gives up without raising and without affecting the next message.',
    bounds={'quick': 'one item (%d kinds x 4 encodings x 4 variants) + sentinel; two items when the first is a fault; Redis: two '
                     'broker events (7 kinds, up to 2 failing reconnections) + a final message, one drop with up to 8 failing '
                     'reconnections; two publishes with 0-3 failing attempts each' % len(KINDS),
            'thorough': 'two items + sentinels; Redis: three broker events, two drops with up to 8 failing reconnections'},
    outside=['the Kombu/ZMQ/Kafka/aio_pika backends (their client libraries are not installed and are not faked)', 'the real redis-py: the fake follows its documented pub/sub behaviour', 'hostile pickles',
             'BaseExceptions other than asyncio.CancelledError raised by a callback'],
    stubs=['backend: _publish appends to a list, _listen is a (restartable) generator over the channel',
           'redis / redis.asyncio -> in-process fake (from_url connects lazily; subscribe/publish raise ConnectionError while down; '
           'listen() runs while subscribed; messages as redis-py dicts); time.sleep / asyncio.sleep in the Redis managers -> recorder',
           'engine.io server -> FakeEio/FakeAEio', 'JSON text of Socket.IO packets -> TokJson', 'asyncio -> vf.miniloop (which closes dropped async generators from a later task, like asyncio\'s asyncgen hooks)'],
    assumptions=['redis-py pub/sub behaves as the fake does (listen() returns at once on a connection that never subscribed)'],
)
