"""C15 The pub/sub listener survives anything that arrives on the channel."""
import asyncio as real_asyncio
import json
import pickle

import socketio
from socketio import packet

from vf import worlds, miniloop, stubs
from vf.tape import Fail, notrace

PROPERTY = 'C15'
RAISE = object()


class Boom(RuntimeError):
    pass


def make_manager(asyncio_):
    import socketio.async_pubsub_manager
    import socketio.pubsub_manager
    base = socketio.async_pubsub_manager.AsyncPubSubManager if asyncio_ else socketio.pubsub_manager.PubSubManager

    if asyncio_:
        class M(base):
            def __init__(self):
                super().__init__()       # default: no logger of its own (falls back to the server's)
                self.chan, self.cursor, self.published, self.listens = [], 0, [], 0

            async def _publish(self, data):
                self.published.append(data)

            async def _listen(self):
                self.listens += 1
                while self.cursor < len(self.chan):
                    item = self.chan[self.cursor]
                    self.cursor += 1
                    if item is RAISE:
                        raise RuntimeError('the backend lost its connection')
                    yield item
    else:
        class M(base):
            def __init__(self):
                super().__init__()       # default: no logger of its own (falls back to the server's)
                self.chan, self.cursor, self.published, self.listens = [], 0, [], 0

            def _publish(self, data):
                self.published.append(data)

            def _listen(self):
                self.listens += 1
                while self.cursor < len(self.chan):
                    item = self.chan[self.cursor]
                    self.cursor += 1
                    if item is RAISE:
                        raise RuntimeError('the backend lost its connection')
                    yield item
    return M()


KINDS = ['valid-emit', 'own-echo', 'foreign-ack', 'ack-without-host', 'ack-unknown-id', 'ack-raising-callback',
         'ack-cancelled-callback', 'garbage-bytes', 'non-dict', 'missing-fields', 'wrong-types', 'unknown-method',
         'emit-that-raises', 'listen-raises', 'valid-room-ops', 'ack-missing-args']
ENCODINGS = ['dict', 'pickle', 'json-str', 'json-bytes']


def encode(msg, enc):
    if enc == 'dict':
        return msg
    if enc == 'pickle':
        return pickle.dumps(msg)
    if enc == 'json-str':
        return json.dumps(msg)
    return json.dumps(msg).encode()


def h(t, part):
    asyncio_ = part['async']
    n = part['n']
    if 'first' in part:
        t.force([part['first']])
    plan = []
    for k in range(n):
        kind = KINDS[t.choice(len(KINDS))]
        if k == 0 or part.get('full'):
            enc = ENCODINGS[t.choice(len(ENCODINGS))]
            variant = t.choice(4)
        else:
            enc = ENCODINGS[t.choice(2)]
            variant = t.choice(2)
        plan.append((kind, enc, variant))
    with notrace():
        m = make_manager(asyncio_)
        w = worlds.SWorld(asyncio_, client_manager=m, async_handlers=False)
        w.eio.bg_inline = False         # the listener is started by the harness, once the channel is filled
        if asyncio_:
            async def oc(sid, environ):
                return None
            w.eio.start_background_task = lambda target, *a, **kw: None
        else:
            def oc(sid, environ):
                return None
        w.s.on('connect', oc)
        w.open('e0')
        sid = w.connect('e0', '/')
        cbs = []
        raising = {'mode': None}

        def cb(*a):
            cbs.append(a)
            if raising['mode'] == 'boom':
                raise Boom('callback')

        async def acb(*a):
            cbs.append(a)
            if raising['mode'] == 'boom':
                raise Boom('callback')
            if raising['mode'] == 'cancelled':
                raise real_asyncio.CancelledError()
        # one outstanding callback per planned message that may complete it (ids 1..n), issued through the manager
        for k in range(n + 1):
            w.call(w.s.emit('q', k, to=sid, callback=acb if asyncio_ else cb))
        w.take('e0')
        del m.published[:]
        me, other = m.host_id, 'another-host'
        expect = {'sentinels': [], 'echoes': 0, 'cb_calls': []}
        # ids under which the application callbacks are registered (the relay partials take ids of their own)
        app_ids = sorted(i for i, f in m.callbacks.get(sid, {}).items() if f in (cb, acb))
        ack_id = [app_ids[0]]
        nxt = [0]

        def sentinel(k):
            expect['sentinels'].append('sentinel-%d' % k)
            return {'method': 'emit', 'event': 'sentinel-%d' % k, 'data': k, 'namespace': '/', 'room': None,
                    'skip_sid': None, 'callback': None, 'host_id': other}
        boom_send = {'on': None}
        for k, (kind, enc, v) in enumerate(plan):
            if kind == 'valid-emit':
                expect['sentinels'].append('valid-%d' % k)
                m.chan.append(encode({'method': 'emit', 'event': 'valid-%d' % k, 'data': [1, 'x'], 'namespace': '/',
                                      'room': sid if v % 2 else None, 'skip_sid': None, 'callback': None, 'host_id': other}, enc))
            elif kind == 'own-echo':
                m.chan.append(encode({'method': ['emit', 'enter_room', 'close_room', 'disconnect'][v], 'event': 'echo', 'data': 1,
                                      'namespace': '/', 'room': None if v == 0 else 'lobby', 'sid': sid, 'skip_sid': None,
                                      'callback': None, 'host_id': me}, enc))
            elif kind == 'foreign-ack':
                m.chan.append(encode({'method': 'callback', 'host_id': other, 'sid': sid, 'namespace': '/', 'id': ack_id[0],
                                      'args': ['stolen']}, enc))
            elif kind == 'ack-without-host':
                msg = {'method': 'callback', 'sid': sid, 'namespace': '/', 'id': ack_id[0], 'args': ['stolen']}
                if v % 2:
                    msg['host_id'] = None
                m.chan.append(encode(msg, enc))
            elif kind == 'ack-unknown-id':
                m.chan.append(encode({'method': 'callback', 'host_id': me, 'sid': sid if v % 2 else 'nobody', 'namespace': '/',
                                      'id': 999, 'args': [1]}, enc))
            elif kind in ('ack-raising-callback', 'ack-cancelled-callback'):
                if kind == 'ack-cancelled-callback' and not asyncio_:
                    continue
                raising['mode'] = 'boom' if kind == 'ack-raising-callback' else 'cancelled'
                expect['cb_calls'].append(('own', ack_id[0]))
                m.chan.append(encode({'method': 'callback', 'host_id': me, 'sid': sid, 'namespace': '/', 'id': ack_id[0],
                                      'args': ['own', ack_id[0]]}, enc))
                nxt[0] += 1
                ack_id[0] = app_ids[nxt[0]]
            elif kind == 'garbage-bytes':
                m.chan.append([b'\x80\x04\x95garbage', b'{"method": "emit"', b'', b'\xff\xfe\x00'][v])
            elif kind == 'non-dict':
                val = [5, [1, 2], 'some method name', None][v]
                m.chan.append(val if enc == 'dict' and v != 3 else encode(val, 'pickle' if enc == 'dict' else enc))
            elif kind == 'missing-fields':
                m.chan.append(encode([{'method': 'emit', 'host_id': other}, {'method': 'callback', 'host_id': me},
                                      {'event': 'x', 'data': 1}, {'method': 'enter_room', 'host_id': other}][v], enc))
            elif kind == 'wrong-types':
                m.chan.append(encode([{'method': 5, 'host_id': other}, {'method': 'emit', 'event': 'e', 'data': 1, 'namespace': 7,
                                                                        'room': 3, 'host_id': other},
                                      {'method': 'leave_room', 'sid': [1], 'namespace': {}, 'room': None, 'host_id': other},
                                      {'method': 'callback', 'host_id': me, 'sid': sid, 'id': 'one', 'args': 5}][v], enc))
            elif kind == 'unknown-method':
                m.chan.append(encode({'method': ['explode', '', 'EMIT', 'emit '][v], 'host_id': other, 'event': 'x'}, enc))
            elif kind == 'emit-that-raises':
                boom_send['on'] = 'raise-%d' % k
                boom_send['cancelled'] = asyncio_ and v % 2 == 1      # asyncio: the write is cancelled
                m.chan.append(encode({'method': 'emit', 'event': 'raise-%d' % k, 'data': 1, 'namespace': '/', 'room': None,
                                      'skip_sid': None, 'callback': None, 'host_id': other}, enc))
            elif kind == 'listen-raises':
                m.chan.append(RAISE)
            elif kind == 'valid-room-ops':
                m.chan.append(encode({'method': 'enter_room', 'sid': sid, 'namespace': '/', 'room': 'lobby-%d' % k,
                                      'host_id': other}, enc))
                expect.setdefault('rooms', []).append('lobby-%d' % k)
            elif kind == 'ack-missing-args':
                m.chan.append(encode({'method': 'callback', 'host_id': me, 'sid': sid, 'namespace': '/', 'id': ack_id[0]}, enc))
            m.chan.append(sentinel(k))
        # a server operation that raises for one particular message
        orig_send = w.s._send_eio_packet

        def boom_sender(eio_sid, pkt, orig=orig_send):
            hit = False
            if boom_send['on'] and isinstance(pkt.data, str):
                try:
                    d = w.P(encoded_packet=pkt.data).data
                    hit = isinstance(d, list) and d and d[0] == boom_send['on']
                except Exception:
                    hit = False
            if hit:
                boom_send['hits'] = boom_send.get('hits', 0) + 1
                if asyncio_:
                    async def f():
                        if boom_send.get('cancelled'):
                            raise real_asyncio.CancelledError()
                        raise Boom('send')
                    return f()
                raise Boom('send')
            return orig(eio_sid, pkt)
        w.s._send_eio_packet = boom_sender
        # ---- run the real listener over the channel ------------------------------------------------------------------
        died = None
        try:
            w.call(m._thread())
            w.finish()
        except BaseException as e:       # noqa: the listener must not die of anything a message can cause
            died = e
        got = [p.data[0] for p in w.take('e0') if not isinstance(p, tuple) and p.packet_type == packet.EVENT]
        t.reached('listener')
        t.note(plan)
        if boom_send['on'] and not boom_send.get('hits'):
            return Fail('harness:fault-not-injected', 'the raising server operation was never reached: plan %r' % (plan,))
        if died is not None:
            return Fail('listener:died:%s' % type(died).__name__, 'plan %r: %r' % (plan, died))
        if m.cursor != len(m.chan):
            return Fail('listener:stopped-reading', 'read %d of %d channel items; plan %r' % (m.cursor, len(m.chan), plan))
        missing = [s for s in expect['sentinels'] if got.count(s) != 1]
        if missing:
            return Fail('listener:message-after-bad-one-lost', 'plan %r: expected once each %r, delivered %r' % (
                plan, expect['sentinels'], got))
        if 'echo' in got:
            return Fail('listener:own-message-reapplied', repr(got))
        if not w.s.manager.is_connected(sid, '/') or 'lobby' in w.s.rooms(sid):
            return Fail('listener:own-message-reapplied', 'rooms %r connected %r' % (w.s.rooms(sid), w.s.manager.is_connected(sid, '/')))
        for r in expect.get('rooms', []):
            if r not in w.s.rooms(sid):
                return Fail('listener:valid-room-op-lost', r)
        want = [('own', i) for _, i in expect['cb_calls']]
        if [tuple(c) for c in cbs] != want:
            stolen = [c for c in cbs if c and c[0] == 'stolen']
            return Fail('listener:foreign-ack-completed-callback' if stolen else 'listener:callback-invocations',
                        'plan %r: callbacks invoked with %r, expected %r' % (plan, cbs, want))
    return None


def parts(tier):
    n = 1 if tier == 'quick' else 2
    out = [{'async': a, 'n': n, 'first': f, 'full': tier != 'quick'} for a in (False, True) for f in range(len(KINDS))]
    if tier == 'quick':
        out += [{'async': a, 'n': 2, 'first': f} for a in (False, True) for f in (13, 5, 12)]    # faults followed by anything
    return out


CHECKS = [dict(name='listener', fn=h, parts=parts, budget={'quick': 180, 'thorough': 900}, per_path_s=20)]

META = dict(
    explanation='The real PubSubManager._thread / AsyncPubSubManager._thread consumes a channel filled with tape-chosen '
                'items (valid messages from another host, own-host echoes, acknowledgements for another host / without a '
                'host / for unknown ids / with missing arguments, garbage bytes, pickles and JSON of non-dicts, dicts with '
                'missing or wrong-typed fields, unknown methods) in four encodings (dict, pickle, JSON str, JSON bytes), '
                'with faults (the application callback raises or is cancelled, a server operation raises, the backend\'s '
                'listen iterator raises and is restarted); after every item a valid sentinel emit must be delivered '
                'exactly once, echoes must not be re-applied and no foreign acknowledgement may complete a local callback. '
                'Everything here is concrete once the solver has chosen the plan: the solver enumerates plans.',
    bounds={'quick': 'one item (%d kinds x 4 encodings x 4 variants) + sentinel; two items when the first is a fault' % len(KINDS),
            'thorough': 'two items + sentinels'},
    outside=['the Redis/Kombu/ZMQ/Kafka backends\' own retry loops (client libraries not installed)', 'hostile pickles',
             'BaseExceptions other than asyncio.CancelledError raised by a callback'],
    stubs=['backend: _publish appends to a list, _listen is a (restartable) generator over the channel',
           'engine.io server -> FakeEio/FakeAEio', 'JSON text of Socket.IO packets -> TokJson', 'asyncio -> vf.miniloop'],
    assumptions=[],
)
