"""C06 Server-initiated acks: callback at most once, only for the right client and id."""
from socketio import packet, exceptions

from vf import worlds, waithook, miniloop
from vf.tape import Fail, notrace

PROPERTY = 'C06'


class Boom(RuntimeError):
    """raised by an application callback (fault injection)"""
NSS = ['/', '/a']
ES = ['e0', 'e1']
BIG = 10 ** 20


def build(asyncio_, chooser=None):
    w = worlds.SWorld(asyncio_, chooser=chooser, async_handlers=True)
    for ns in NSS:
        if asyncio_:
            async def on_connect(sid, environ):
                return None
        else:
            def on_connect(sid, environ):
                return None
        w.s.on('connect', on_connect, namespace=ns)
    live = {}
    for e in ES:
        w.open(e)
        for ns in NSS:
            live[(e, ns)] = w.connect(e, ns)
    for e in ES:
        w.take(e)
    return w, live


def snap(w):
    return {sid: sorted(d) for sid, d in w.s.manager.callbacks.items()}


def h_hist(t, part):
    asyncio_ = part['async']
    with notrace():
        w, live = build(asyncio_)
    model = {}        # sid -> {id: tag}
    used = {}         # sid -> ids that were issued and answered
    fired = []
    boom_at = t.int(-1, 1)       # which callback invocation raises (-1: none)

    def invoked(tag, a):
        k = len(fired)
        fired.append((tag, a))
        if boom_at == k:
            raise Boom(tag)

    def mkcb(tag):
        if asyncio_ and tag in ('cb1', 'cb3', 'final'):
            async def cb(*a):
                invoked(tag, a)
        else:
            def cb(*a):
                invoked(tag, a)
        return cb

    def emit_cb(e, ns, tag, data, skip_other=False):
        sid = live[(e, ns)]
        other = [live[(e2, ns)] for e2 in ES if e2 != e and live[(e2, ns)] is not None]
        if skip_other and other:
            # addressed to the whole namespace minus everybody else: one recipient; nothing may be sent to, or registered
            # for, the skipped clients
            w.call(w.s.emit('q', data, namespace=ns, skip_sid=other, callback=mkcb(tag)))
            for e2 in ES:
                if e2 != e and w.take(e2):
                    return Fail('ack:emit-reached-skipped-client', e2)
        else:
            w.call(w.s.emit('q', data, to=sid, namespace=ns, callback=mkcb(tag)))
        pk = [p for p in w.take(e)]
        if len(pk) != 1 or isinstance(pk[0], tuple) or pk[0].packet_type not in (packet.EVENT, packet.BINARY_EVENT):
            return Fail('ack:emit-shape', 'emit with callback produced %r' % ([worlds.pk(p) for p in pk],))
        i = pk[0].id
        if i is None:
            return Fail('ack:emit-no-id', 'event emitted with a callback carries no id')
        if (pk[0].namespace or '/') != ns:
            return Fail('ack:emit-namespace', repr(worlds.pk(pk[0])))
        if i in model.setdefault(sid, {}):
            return Fail('ack:id-reused', 'id %r already outstanding for %s: %r' % (i, sid, model[sid]))
        if i in used.get(sid, ()):
            # "acknowledgements with an already used id are ignored": an id that was answered stays dead for that connection
            return Fail('ack:id-reused-after-answer', 'id %r was already issued to %s and answered; a duplicate of that '
                        'acknowledgement would now invoke %r' % (i, sid, tag))
        model[sid][i] = tag
        return None

    nontriv = 0
    # flattened operation alphabet (one draw per step)
    OPS = [('emit', e, ns) for e in ES for ns in NSS] + [('emit-skip', 'e0', ns) for ns in NSS] + \
          [('ack', e, ns, k) for e in ES for ns in NSS for k in range(3)] + \
          [('disc', 'e0', ns) for ns in NSS] + [('conn', 'e0', ns) for ns in NSS]
    if 'first' in part:
        t.force([part['first']])
    ACKS = [o for o in OPS if o[0] == 'ack']
    for step in range(part['n']):
        # the last operation of a quick history is an acknowledgement: after it only the epilogue observes, and the epilogue
        # itself emits to and disconnects nobody
        pool = ACKS if (part.get('last_is_ack') and step == part['n'] - 1 and step > 0) else OPS
        o = pool[t.choice(len(pool))]
        op, e, ns = o[0], o[1], o[2]
        if op in ('emit', 'emit-skip'):
            if live[(e, ns)] is None:
                continue
            r = emit_cb(e, ns, 'cb%d' % step, None if step % 2 else t.int(-2, 2), skip_other=op == 'emit-skip')
            if r:
                return r
        elif op == 'ack':
            # an ACK / BINARY_ACK from transport e on namespace ns with an arbitrary id
            pal = o[3]
            if pal in (0, 1):
                i = t.int(0, part['n'])       # 0, every id that can have been issued so far
            else:
                i = 0 if step % 2 == 0 else BIG    # through the real text codec: id 0 / a never issued huge id
            binary = pal == 1
            data = [t.int(-2, 2)] if pal == 0 else [t.int(-2, 2), 7] if pal == 1 else []
            before = snap(w)
            nfired = len(fired)
            ncont = len(w.eio.contained)
            if pal == 2:
                w.send(e, w.P(packet.ACK, data=data, namespace=ns, id=i))
            else:
                frame = w.P.inject(type=packet.BINARY_ACK if binary else packet.ACK, namespace=ns, id=i, data=data,
                                   count=1 if binary else 0)
                w.recv(e, frame)
                if binary:
                    w.recv(e, b'x')     # the (unused) attachment completes the packet
            sid = live[(e, ns)]
            known = sid is not None and i in model.get(sid, {})
            if len(w.eio.contained) != ncont and not (known and isinstance(w.eio.contained[-1][1], Boom)):
                return Fail('ack:exception:%s:id=%s' % (type(w.eio.contained[-1][1]).__name__,
                                                        'zero' if i == 0 else 'other'),
                            'ACK id=%r from %s%s raised %r (known=%r)' % (i, e, ns, w.eio.contained[-1][1], known))
            if known:
                nontriv += 1
                tag = model[sid].pop(i)
                used.setdefault(sid, set()).add(i)
                if fired[nfired:] != [(tag, tuple(data))]:
                    return Fail('ack:callback-args', 'expected %r got %r' % ((tag, tuple(data)), fired[nfired:]))
            else:
                if len(fired) != nfired:
                    return Fail('ack:spurious-callback', 'ACK id=%r from %s%s fired %r' % (i, e, ns, fired[nfired:]))
                if snap(w) != before:
                    return Fail('ack:state-changed:id=%s' % ('zero' if i == 0 else 'other'),
                                'unknown ACK id=%r changed callback state %r -> %r' % (i, before, snap(w)))
        elif op == 'disc':
            if live[(e, ns)] is None:
                continue
            w.send(e, w.P(packet.DISCONNECT, namespace=ns))
            model.pop(live[(e, ns)], None)
            live[(e, ns)] = None
        else:
            if live[(e, ns)] is not None:
                continue
            live[(e, ns)] = w.connect(e, ns)
            w.take(e)
            if live[(e, ns)] is None:
                return Fail('ack:reconnect-refused', '')
    # afterwards: ids are still fresh for every live client, nothing else fired
    nfired = len(fired)
    for (e, ns), sid in sorted(live.items()):
        if sid is not None:
            ncont = len(w.eio.contained)
            try:
                r = emit_cb(e, ns, 'final', None)
            except Exception as exc:
                return Fail('ack:emit-raises:%s' % type(exc).__name__, 'emit with callback to %s raised %r' % (sid, exc))
            if r:
                return r
    w.finish()
    if len(fired) != nfired:
        return Fail('ack:late-callback', repr(fired[nfired:]))
    t.reached('history')
    t.note('steps', part['n'], 'acks matched', nontriv)
    # epilogue: every callback that is still outstanding according to the model is answered now, and must run exactly once
    for (e, ns), sid in sorted(live.items()):
        if sid is None:
            continue
        for i in sorted(model.get(sid, {})):
            tag = model[sid].pop(i)
            nfired = len(fired)
            w.send(e, w.P(packet.ACK, data=[9], namespace=ns, id=i))
            if fired[nfired:] != [(tag, (9,))]:
                return Fail('ack:outstanding-callback-lost', 'the callback %r (id %r, %s%s) was still outstanding after the history; '
                            'its acknowledgement fired %r' % (tag, i, e, ns, fired[nfired:]))
    return None


# ---- call(): every order of {ACK arrives, timeout expires, client disconnects} ------------------
def h_call_sync(t, part):
    with notrace():
        w, live = build(False)
    e, ns = 'e0', NSS[t.choice(2)]
    sid = live[(e, ns)]
    acked = []
    fired2 = []
    script = {'n': 0}

    def hook(ev, timeout):
        # while call() is blocked: a tape-chosen sequence of environment actions
        for _ in range(2):
            k = t.choice(5)
            if k == 0:
                return                  # nothing more happens: the timeout expires
            pk = [p for p in w.take(e) if not isinstance(p, tuple) and p.packet_type == packet.EVENT]
            if pk:
                script['id'] = pk[0].id
            if k == 4:
                # another thread of the application emits to the same client with a callback of its own
                if 'id2' not in script and not script.get('gone'):
                    w.s.emit('q2', 7, to=sid, namespace=ns, callback=lambda *a: fired2.append(a))
                    pk2 = [p for p in w.take(e) if not isinstance(p, tuple) and p.packet_type == packet.EVENT]
                    script['id2'] = pk2[0].id if pk2 else None
                continue
            if k == 1 and 'id' in script and not acked:
                nargs = t.choice(3)
                data = [t.int(-2, 2) for _ in range(nargs)]
                if not script.get('gone'):
                    acked.append(data)      # an ACK after the client's disconnect must not complete anything
                w.send(e, w.P(packet.ACK, data=data, namespace=ns, id=script['id']))
            elif k == 2:
                script['gone'] = True
                w.send(e, w.P(packet.DISCONNECT, namespace=ns))
            elif k == 3:
                # ACK for the same id from the other client: must not complete the call
                if 'id' in script:
                    w.send('e1', w.P(packet.ACK, data=[99], namespace=ns, id=script['id']))
            if ev.is_set():
                return
    waithook.HOOK[0] = hook
    try:
        try:
            r = ('ok', w.s.call('q', 5, to=sid, namespace=ns, timeout=3))
        except exceptions.TimeoutError:
            r = ('timeout',)
    finally:
        waithook.HOOK[0] = None
    t.reached('call')
    if 'id2' in script and not script.get('gone'):
        # the other emit's callback is untouched by however the call() ended: its acknowledgement arrives now
        if script['id2'] is None or script['id2'] == script.get('id'):
            return Fail('call:other-emit-id', 'the emit during the call carried id %r (the call: %r)' % (script['id2'], script.get('id')))
        w.send(e, w.P(packet.ACK, data=[42], namespace=ns, id=script['id2']))
        if fired2 != [(42,)]:
            return Fail('call:other-callback-lost', 'call() ended with %r; the callback of another emit to the same client, '
                        'acknowledged afterwards, ran %r' % (r, fired2))
    if acked:
        d = acked[0]
        exp = None if len(d) == 0 else d[0] if len(d) == 1 else tuple(d)
        if r[0] != 'ok' or not (r[1] == exp):
            return Fail('call:result', 'acked %r, call gave %r' % (d, r))
    else:
        if r[0] != 'timeout':
            return Fail('call:no-ack-no-timeout', 'call returned %r without an acknowledgement' % (r,))
    return None


def h_call_early(t, part):
    """threaded: the acknowledgement is handled (by another thread) before emit() has returned to call()"""
    with notrace():
        w, live = build(False)
    e, ns = 'e0', NSS[t.choice(2)]
    sid = live[(e, ns)]
    nargs = t.choice(3)
    data = [t.int(-2, 2) for _ in range(nargs)]
    early = t.bool()
    state = {'done': False}

    def on_send(eio_sid, frame):
        if state['done'] or eio_sid != e or not isinstance(frame, str) or not early:
            return
        p = w.P(encoded_packet=frame)
        if p.packet_type == packet.EVENT and p.id is not None:
            state['done'] = True
            w.send(e, w.P(packet.ACK, data=data, namespace=ns, id=p.id))
    w.eio.on_send = on_send

    def hook(ev, timeout):
        if not early and not state['done']:
            pk = [p for p in w.take(e) if not isinstance(p, tuple) and p.packet_type == packet.EVENT]
            if pk:
                state['done'] = True
                w.send(e, w.P(packet.ACK, data=data, namespace=ns, id=pk[0].id))
    waithook.HOOK[0] = hook
    try:
        try:
            r = ('ok', w.s.call('q', 5, to=sid, namespace=ns, timeout=3))
        except exceptions.TimeoutError:
            r = ('timeout',)
    finally:
        waithook.HOOK[0] = None
        w.eio.on_send = None
    t.reached('call')
    if w.eio.contained:
        return Fail('call:exception:%s' % type(w.eio.contained[0][1]).__name__, repr(w.eio.contained[0]))
    exp = None if len(data) == 0 else data[0] if len(data) == 1 else tuple(data)
    if r[0] != 'ok' or not (r[1] == exp):
        return Fail('call:result:%s' % ('early-ack' if early else 'ack-during-wait'), 'acked %r, call gave %r' % (data, r))
    return None


def h_call_async(t, part):
    with notrace():
        w, live = build(True, chooser=None)
    w.drv.loop.chooser = lambda n: t.choice(n)
    e, ns = 'e0', NSS[t.choice(2)]
    sid = live[(e, ns)]
    acked = []
    fired2 = []
    out = {}

    async def caller():
        try:
            out['r'] = ('ok', await w.s.call('q', 5, to=sid, namespace=ns, timeout=3))
        except exceptions.TimeoutError:
            out['r'] = ('timeout',)

    async def peer():
        # the event is on the wire once the caller has run its emit; wait for it without polling
        await miniloop._Suspend('cond', lambda: len(w.frames(e)) > w.pos.get(e, 0), None, 'peer waits for event')
        pk = [p for p in w.take(e) if not isinstance(p, tuple) and p.packet_type == packet.EVENT]
        k = t.choice(5)
        if k == 4:
            # another task of the application emits to the same client with a callback of its own; its
            # acknowledgement arrives after the call() has ended
            await w.s.emit('q2', 7, to=sid, namespace=ns, callback=lambda *a: fired2.append(a))
            pk2 = [p for p in w.take(e) if not isinstance(p, tuple) and p.packet_type == packet.EVENT]
            out['id2'] = (pk2[0].id if pk2 else None, pk[0].id)
        if k == 1:
            nargs = t.choice(3)
            data = [t.int(-2, 2) for _ in range(nargs)]
            acked.append(data)
            await w.eio.recv(e, worlds.encode_frames(w.P(packet.ACK, data=data, namespace=ns, id=pk[0].id))[0])
        elif k == 2:
            await w.eio.recv(e, worlds.encode_frames(w.P(packet.DISCONNECT, namespace=ns))[0])
        elif k == 3:
            await w.eio.recv('e1', worlds.encode_frames(w.P(packet.ACK, data=[99], namespace=ns, id=pk[0].id))[0])

    t1 = miniloop.create_task(caller(), 'caller')
    t2 = miniloop.create_task(peer(), 'peer')
    try:
        w.drv.loop.drain()
    except miniloop.Deadlock as ex:
        return Fail('call:deadlock', str(ex))
    for tk in (t1, t2):
        if tk.exc:
            return Fail('call:task-exception:%s' % type(tk.exc).__name__, repr(tk.exc))
    r = out.get('r')
    t.reached('call')
    if 'id2' in out:
        id2, id1 = out['id2']
        if id2 is None or id2 == id1:
            return Fail('call:other-emit-id', 'the emit during the call carried id %r (the call: %r)' % (id2, id1))
        w.drv.loop.chooser = lambda n: 0
        w.send(e, w.P(packet.ACK, data=[42], namespace=ns, id=id2))
        if fired2 != [(42,)]:
            return Fail('call:other-callback-lost', 'call() ended with %r; the callback of another emit to the same client, '
                        'acknowledged afterwards, ran %r' % (r, fired2))
    if acked:
        d = acked[0]
        exp = None if len(d) == 0 else d[0] if len(d) == 1 else tuple(d)
        # the ACK may arrive after the timeout fired: then TimeoutError is the right answer too
        if r[0] == 'ok' and not (r[1] == exp):
            return Fail('call:result', 'acked %r, call gave %r' % (d, r))
        if r[0] not in ('ok', 'timeout'):
            return Fail('call:result', repr(r))
    else:
        if r is None or r[0] != 'timeout':
            return Fail('call:no-ack-no-timeout', 'call returned %r without an acknowledgement' % (r,))
    return None


# ---- a callback that uses the server again (chained acknowledgements, disconnect from a callback) ---------------
class Deadlocked(Exception):
    pass


def h_chain(t, part):
    import signal
    asyncio_ = part['async']
    with notrace():
        w, live = build(asyncio_)
    ns = NSS[t.choice(2)]
    sid, other = live[('e0', ns)], live[('e1', ns)]
    action = part['action']
    x = t.int(-2, 2)
    fired = []

    def then(a):
        fired.append(('cb1', a))
        if action == 'emit-same':
            return w.s.emit('q2', 1, to=sid, namespace=ns, callback=lambda *b: fired.append(('cb2', b)))
        if action == 'emit-other':
            return w.s.emit('q2', 1, to=other, namespace=ns, callback=lambda *b: fired.append(('cb2', b)))
        return w.s.disconnect(sid, namespace=ns)
    if asyncio_:
        async def cb1(*a):
            await then(a)
    else:
        def cb1(*a):
            then(a)
    w.call(w.s.emit('q', 0, to=sid, namespace=ns, callback=cb1))
    pk = [p for p in w.take('e0') if not isinstance(p, tuple)]
    if len(pk) != 1 or pk[0].id is None:
        return Fail('ack:emit-shape', repr([worlds.pk(p) for p in pk]))

    def alarm(signum, frame):
        raise Deadlocked()
    try:
        old = signal.signal(signal.SIGALRM, alarm)
        signal.setitimer(signal.ITIMER_REAL, 10)
    except ValueError:
        old = None
    try:
        ncont = len(w.eio.contained)
        try:
            # the acknowledgement arrives: the callback runs on the thread / task that handles the packet and calls back
            # into the server
            w.send('e0', w.P(packet.ACK, data=[x], namespace=ns, id=pk[0].id))
            w.finish()
        except Deadlocked:
            return Fail('ack:callback-using-the-server-blocks', 'the callback of an emit (%s from inside it) never returned' % action)
        if len(w.eio.contained) != ncont and isinstance(w.eio.contained[-1][1], Deadlocked):
            return Fail('ack:callback-using-the-server-blocks', 'the callback of an emit (%s from inside it) never returned' % action)
        if len(w.eio.contained) != ncont:
            return Fail('ack:callback-using-the-server-raises:%s' % type(w.eio.contained[-1][1]).__name__, repr(w.eio.contained[-1]))
        t.reached('chained')
        if not (fired == [('cb1', (x,))]):
            return Fail('ack:callback-args', repr(fired))
        if action == 'disconnect':
            if w.s.manager.is_connected(sid, ns) or sid in w.s.manager.callbacks:
                return Fail('ack:disconnect-from-callback', 'still connected / callbacks left')
            return None
        e2 = 'e0' if action == 'emit-same' else 'e1'
        pk2 = [p for p in w.take(e2) if not isinstance(p, tuple) and p.packet_type == packet.EVENT]
        if len(pk2) != 1 or pk2[0].id is None or (action == 'emit-same' and pk2[0].id == pk[0].id):
            return Fail('ack:chained-emit-shape', repr([worlds.pk(p) for p in pk2]))
        w.send(e2, w.P(packet.ACK, data=[7], namespace=ns, id=pk2[0].id))
        w.finish()
        if not (fired == [('cb1', (x,)), ('cb2', (7,))]):
            return Fail('ack:chained-callback', repr(fired))
        return None
    finally:
        if old is not None:
            signal.setitimer(signal.ITIMER_REAL, 0)
            signal.signal(signal.SIGALRM, old)


NOPS = 4 + 12 + 2 + 2 + 2


def hist_parts(tier):
    n = 3 if tier == 'quick' else 4
    return [{'async': a, 'n': n, 'first': f, 'last_is_ack': tier == 'quick'} for a in (False, True) for f in range(NOPS)]


CHECKS = [
    dict(name='history', fn=h_hist, parts=hist_parts, budget={'quick': 180, 'thorough': 900}, per_path_s=20),
    dict(name='call-threaded', fn=h_call_sync, parts=[{}], budget={'quick': 180, 'thorough': 120}),
    dict(name='call-asyncio', fn=h_call_async, parts=[{}], budget={'quick': 180, 'thorough': 120}),
    dict(name='call-early-ack', fn=h_call_early, parts=[{}], budget={'quick': 180, 'thorough': 120}),
    dict(name='callback-uses-server', fn=h_chain,
         parts=[{'async': a, 'action': x} for a in (False, True) for x in ('emit-same', 'emit-other', 'disconnect')],
         budget={'quick': 60, 'thorough': 60}),
]

META = dict(
    explanation='Real Server/AsyncServer + Manager/AsyncManager: emit(callback=), _handle_eio_message -> _handle_ack -> '
                'trigger_callback, call(), against a reference table of outstanding (sid, id) -> callback.',
    bounds={'quick': 'histories of 3 operations (the third an acknowledgement) from {emit-with-callback to one client or to the namespace minus everybody else, ACK/BINARY_ACK with symbolic id in 0..4 or '
                     '10^20 or 0 through the text codec, namespace DISCONNECT, re-CONNECT} over 2 transports x 2 '
                     'namespaces; ACK arguments 0..2 symbolic ints; at most one callback invocation raises (symbolic index); then '
                     'one emit-with-callback to every live client and an acknowledgement of every callback still outstanding; '
                     'call(): one call with up to 2 environment actions during the wait (ACK with 0..2 args, '
                     'DISCONNECT, foreign ACK, another emit with a callback to the same client - acknowledged after the call has ended -, nothing); asyncio: all miniloop schedules of caller || peer; a callback that itself emits with a callback (to the same or another client) or disconnects the client, under a 10 s watchdog',
            'thorough': 'same with histories of 4 operations'},
    outside=['callbacks on multi-recipient emits (documented unsupported)', 'more than one raising callback', 'ids above 4 other than 10^20',
             'payload shapes (C02)'],
    stubs=['engine.io server -> vf.stubs.FakeEio/FakeAEio', 'JSON text -> TokJson', 'asyncio -> vf.miniloop',
           'Event.wait of call() -> vf.waithook (environment actions run re-entrantly while blocked)',
           'ACK packets with symbolic ids are injected at Packet.decode (text codec is C01/C12)'],
    assumptions=['engine.io contains exceptions escaping the message callback (engineio/server.py:445-471); such an '
                 'exception is nevertheless a violation of "ignored without error"'],
)
