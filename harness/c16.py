"""C16 User sessions are private to one client connection and namespace."""
from socketio import packet

from vf import worlds
from vf.tape import Fail, notrace

PROPERTY = 'C16'
SLOTS = [('e0', '/'), ('e0', '/a'), ('e1', '/')]
KINDS = ['connect', 'save', 'save-empty', 'block', 'nested-block', 'block-left-by-exception', 'save-inside-block', 'deferred-block', 'leave-own-room',
         'client-disconnect', 'server-disconnect']
OPS = [(k, i) for k in KINDS for i in range(len(SLOTS))] + [('lose-reopen', 'e0'), ('lose-reopen', 'e1')]


def h(t, part):
    asyncio_ = part['async']
    seen_in_handler = []
    with notrace():
        w = worlds.SWorld(asyncio_, async_handlers=False)
        for ns in ('/', '/a'):
            if asyncio_:
                async def on_connect(sid, environ):
                    return None
            else:
                def on_connect(sid, environ):
                    return None
            w.s.on('connect', on_connect, namespace=ns)
            if asyncio_:
                async def on_disconnect(sid, reason, ns=ns):
                    seen_in_handler.append((sid, await w.s.get_session(sid, namespace=ns)))
            else:
                def on_disconnect(sid, reason, ns=ns):
                    seen_in_handler.append((sid, w.s.get_session(sid, namespace=ns)))
            w.s.on('disconnect', on_disconnect, namespace=ns)
        live = {}
        for e in ('e0', 'e1'):
            w.open(e)
        for e, ns in SLOTS:
            live[(e, ns)] = w.connect(e, ns)
    model = {sid: {} for sid in live.values()}
    ever = set(model)
    ended_ns = set()       # slots whose previous sid ended by a namespace-level disconnect on a live transport
    saved_once = False

    def get(sid, ns):
        return w.call(w.s.get_session(sid, namespace=ns))

    def block(sid, ns, key, val):
        if asyncio_:
            async def go():
                async with w.s.session(sid, namespace=ns) as sess:
                    sess[key] = val
            return w.call(go())
        with w.s.session(sid, namespace=ns) as sess:
            sess[key] = val

    def nested(sid, ns, k1, v1, k2, v2):
        if asyncio_:
            async def go():
                async with w.s.session(sid, namespace=ns) as a:
                    a[k1] = v1
                    async with w.s.session(sid, namespace=ns) as b:
                        b[k2] = v2
            return w.call(go())
        with w.s.session(sid, namespace=ns) as a:
            a[k1] = v1
            with w.s.session(sid, namespace=ns) as b:
                b[k2] = v2

    def check_all(where):
        for (e, ns), sid in sorted(live.items()):
            if sid is None:
                continue
            got = get(sid, ns)
            if not (got == model[sid]):
                return Fail('session:read-your-writes', '%s: session of %s on %s is %r, expected %r' % (
                    where, sid, ns, got, model[sid]))
        return None

    if 'first' in part:
        t.force([part['first']])
    for step in range(part['n']):
        o = OPS[t.choice(len(OPS))]
        if o[0] == 'lose-reopen':
            e = o[1]
            w.lose(e)
            for (e2, ns), sid in list(live.items()):
                if e2 == e:
                    live[(e2, ns)] = None
                    ended_ns.discard((e2, ns))
            # the client comes back: engine.io gives the new transport a new id; we keep the slot name by
            # re-opening the same key after it was closed (FakeEio creates a new Transport with a fresh session)
            w.open(e)
            continue
        kind, i = o
        e, ns = SLOTS[i]
        sid = live[(e, ns)]
        if kind == 'connect':
            if sid is not None:
                # a second CONNECT for a namespace the client is still on (a retry, a hostile client): refused, and the
                # established connection keeps its session (check_all below)
                if w.connect(e, ns) is not None:
                    return Fail('session:duplicate-connect-accepted', '%s %s' % (e, ns))
                r = check_all('after a duplicate CONNECT on %s %s' % (e, ns))
                if r:
                    return r
                continue
            new = w.connect(e, ns)
            if new is None:
                return Fail('session:connect-refused', 'CONNECT on %s %s refused' % (e, ns))
            if new in ever:
                return Fail('session:sid-reused', new)
            ever.add(new)
            live[(e, ns)] = new
            model[new] = {}
            got = get(new, ns)
            if not (got == {}):
                how = 'namespace-reconnect-on-live-transport' if (e, ns) in ended_ns else 'other'
                return Fail('session:new-sid-not-empty:%s' % how,
                            'new sid %s on %s %s starts with session %r' % (new, e, ns, got))
            ended_ns.discard((e, ns))
        elif sid is None:
            continue
        elif kind == 'save':
            val = {'k': t.int(-3, 3), 'step': step}
            w.call(w.s.save_session(sid, val, namespace=ns))
            model[sid] = dict(val)
            saved_once = True
        elif kind == 'save-empty':
            w.call(w.s.save_session(sid, {}, namespace=ns))
            model[sid] = {}
            saved_once = True
        elif kind == 'nested-block':
            v = t.int(-3, 3)
            nested(sid, ns, 'o%d' % step, v, 'i%d' % step, 7)
            model[sid] = dict(model[sid])
            model[sid]['o%d' % step] = v
            model[sid]['i%d' % step] = 7
            saved_once = True
        elif kind == 'save-inside-block':
            v = t.int(-3, 3)
            if asyncio_:
                async def go2():
                    async with w.s.session(sid, namespace=ns) as sess:
                        sess['b%d' % step] = v
                        await w.s.save_session(sid, {'replaced': step}, namespace=ns)
                w.call(go2())
            else:
                with w.s.session(sid, namespace=ns) as sess:
                    sess['b%d' % step] = v
                    w.s.save_session(sid, {'replaced': step}, namespace=ns)
            # leaving the block stores the block's dictionary
            model[sid] = dict(model[sid])
            model[sid]['b%d' % step] = v
            saved_once = True
        elif kind == 'leave-own-room':
            # the application takes the client out of the room named after its session id (a "leave all rooms" loop does):
            # the client stays connected and keeps its session
            w.call(w.s.leave_room(sid, sid, namespace=ns))
        elif kind == 'deferred-block':
            # the context manager is created first, the session is replaced, then the block is entered: the block works on
            # the session as it is when it is entered
            v = t.int(-3, 3)
            cm = w.s.session(sid, namespace=ns)
            w.call(w.s.save_session(sid, {'replaced': step}, namespace=ns))
            if asyncio_:
                async def go3():
                    async with cm as sess:
                        sess['d%d' % step] = v
                w.call(go3())
            else:
                with cm as sess:
                    sess['d%d' % step] = v
            model[sid] = {'replaced': step, 'd%d' % step: v}
            saved_once = True
        elif kind == 'block-left-by-exception':
            v = t.int(-3, 3)
            try:
                if asyncio_:
                    async def go():
                        async with w.s.session(sid, namespace=ns) as sess:
                            sess['x%d' % step] = v
                            raise KeyError('application error inside the block')
                    w.call(go())
                else:
                    with w.s.session(sid, namespace=ns) as sess:
                        sess['x%d' % step] = v
                        raise KeyError('application error inside the block')
            except KeyError:
                pass
            model[sid] = dict(model[sid])
            model[sid]['x%d' % step] = v
            saved_once = True
        elif kind == 'block':
            v = t.int(-3, 3)
            block(sid, ns, 'm%d' % step, v)
            model[sid] = dict(model[sid])
            model[sid]['m%d' % step] = v
            saved_once = True
        elif kind == 'client-disconnect':
            del seen_in_handler[:]
            w.send(e, w.P(packet.DISCONNECT, namespace=ns))
            if w.eio.contained or [x for x in seen_in_handler if not (x[1] == model[sid])]:
                return Fail('session:not-readable-in-disconnect-handler', 'handler saw %r, contained %r, expected %r' % (
                    seen_in_handler, w.eio.contained[-1:], model[sid]))
            live[(e, ns)] = None
            ended_ns.add((e, ns))
        elif kind == 'server-disconnect':
            del seen_in_handler[:]
            try:
                w.call(w.s.disconnect(sid, namespace=ns))
            except KeyError as ex:
                return Fail('session:not-readable-in-disconnect-handler', repr(ex))
            if [x for x in seen_in_handler if not (x[1] == model[sid])]:
                return Fail('session:not-readable-in-disconnect-handler', 'handler saw %r, expected %r' % (seen_in_handler, model[sid]))
            live[(e, ns)] = None
            ended_ns.add((e, ns))
        r = check_all('after step %d (%s %s %s)' % (step, kind, e, ns))
        if r:
            return r
    if saved_once:
        t.reached('sessions')
    return None


def parts(tier):
    n = 3 if tier == 'quick' else 4
    return [{'async': a, 'n': n, 'first': f} for a in (False, True) for f in range(len(OPS))]


CHECKS = [dict(name='sessions', fn=h, parts=parts, budget={'quick': 180, 'thorough': 900})]

META = dict(
    explanation='Real get_session/save_session/session() of Server and AsyncServer on the fake engine.io session store, '
                'against a reference map sid -> contents; after every operation every live session is read back.',
    bounds={'quick': 'histories of 3 operations from {CONNECT (a duplicate one when the slot is connected), save_session, session() block, client DISCONNECT, '
                     'server.disconnect} x 3 slots (e0:/, e0:/a, e1:/) + {transport loss and re-open} x 2 transports, '
                     'starting with all three slots connected; also save_session({}), two nested session() blocks, a block left by an exception, and a disconnect handler reading the session; session '
                     'values are dicts with a symbolic int',
            'thorough': 'same with 4 operations'},
    outside=['session contents other than small dicts', 'concurrent access to one session'],
    stubs=['engine.io server -> FakeEio/FakeAEio: get_session returns the transport\'s dict, which dies with the '
           'transport (engineio/server.py:108-128, base_server.py:234-243)', 'JSON text -> TokJson',
           'asyncio -> vf.miniloop (FIFO)'],
    assumptions=['a re-opened transport gets a fresh engine.io session (new engine.io sid in reality)'],
)
