"""C09 Client events and acknowledgements: one handler, one ACK, callback once."""
import socketio
from socketio import packet, exceptions

from vf import worlds, waithook, miniloop
from vf.tape import Fail, notrace

PROPERTY = 'C09'
NSS = ['/', '/a']
BIG = 10 ** 20


def ack_payload(r):
    return [] if r is None else list(r) if isinstance(r, tuple) else [r]


# ---- incoming events -----------------------------------------------------------------------------
def h_event(t, part):
    asyncio_ = part['async']
    who = part['who']           # fn / none / catchall / cls
    calls = []
    coro = asyncio_ and (True if part.get('overlap') else t.bool())
    retform = t.choice(4)
    x = t.int(-3, 3)
    y = t.str(2)
    ret = [None, x, (x, y), [x, y]][retform]

    overlap = part.get('overlap', False)
    nested = {'done': False}

    def mk(tag, prefix=0):
        if coro:
            async def f(*a):
                calls.append((tag, a))
                if overlap and tag != 'second':
                    await miniloop.checkpoint('handler')     # suspended: the next message is handled meanwhile
                return ret
        else:
            def f(*a):
                calls.append((tag, a))
                if overlap and tag != 'second' and not nested['done']:
                    # engine.io runs every incoming message in its own thread: the next one is handled while this
                    # handler is still running
                    nested['done'] = True
                    w.recv(w.P(packet.EVENT, data=['second', 5], namespace=ns, id=8).encode())
                return ret
        return f
    ns = NSS[t.choice(2)]
    with notrace():
        w = worlds.CWorld(asyncio_)
        if who == 'fn':
            w.c.on('ev', mk('fn'), namespace=ns)
        elif who == 'catchall':
            w.c.on('*', mk('catchall'), namespace=ns)
        elif who == 'cls':
            base = socketio.AsyncClientNamespace if asyncio_ else socketio.ClientNamespace
            if coro:
                async def on_ev(self, *a):
                    calls.append(('cls', a))
                    return ret
            else:
                def on_ev(self, *a):
                    calls.append(('cls', a))
                    return ret
            w.c.register_namespace(type('N', (base,), {'on_ev': on_ev})(ns))
        # an unrelated handler on the other namespace must never run
        w.c.on('ev', mk('other-namespace'), namespace=NSS[1 - NSS.index(ns)])
        if overlap:
            w.c.on('second', mk('second'), namespace=ns)
            w.eio.task_per_message = True
        w.connect(NSS)
        if overlap and asyncio_:
            w.finish()
    idk = t.choice(4)
    eid = None if idk == 0 else 0 if idk == 1 else t.int(1, 3) if idk == 2 else BIG
    nargs = t.choice(3)
    a1 = t.int(-3, 3)
    a2 = t.bytes(2) if part['binary'] else t.str(2)
    args = [a1, a2][:nargs]
    if part['binary'] and nargs == 2:
        pkt = w.P(packet.EVENT, data=['ev'] + args, namespace=ns, id=eid if idk != 2 else 2)
        if idk == 2:
            # symbolic id: inject the header, deliver the real attachment
            pl = w.P(packet.EVENT, data=['ev'] + args, namespace=ns)
            hdr = w.P.inject(type=packet.BINARY_EVENT, namespace=ns, id=eid, data=['ev', a1, {'_placeholder': True, 'num': 0}],
                             count=1)
            w.recv(hdr)
            w.recv(a2)
        else:
            w.send(pkt)
    else:
        if idk == 2:
            w.recv(w.P.inject(type=packet.EVENT, namespace=ns, id=eid, data=['ev'] + args))
        else:
            w.send(w.P(packet.EVENT, data=['ev'] + args, namespace=ns, id=eid))
    if overlap and asyncio_:
        w.recv(w.P(packet.EVENT, data=['second', 5], namespace=ns, id=8).encode())
    w.finish()
    if w.eio.contained:
        return Fail('event:exception:%s' % type(w.eio.contained[0][1]).__name__, repr(w.eio.contained[0]))
    t.reached('event')
    if overlap and who != 'none':
        sec = [c for c in calls if c[0] == 'second']
        calls[:] = [c for c in calls if c[0] != 'second']
        if sec != [('second', (5,))]:
            return Fail('event:overlapping-message-lost', 'a message that arrived while the handler was running: %r' % (sec,))
        out2 = [p for p in w.take()]
        ack8 = [p for p in out2 if not isinstance(p, tuple) and p.id == 8]
        if len(ack8) != 1:
            return Fail('event:overlapping-message-not-acknowledged', repr([worlds.pk(p) for p in out2]))
        w.pos -= len([p for p in out2 if p not in ack8]) and 0
        rest = [p for p in out2 if p not in ack8]
        w._pending_out = rest
    elif overlap:
        w._pending_out = [p for p in w.take() if isinstance(p, tuple) or p.id != 8]
    t.note(part, 'id', idk, 'ret', retform)
    exp_calls = {'fn': [('fn', tuple(args))], 'catchall': [('catchall', ('ev',) + tuple(args))],
                 'cls': [('cls', tuple(args))], 'none': []}[who]
    if len(calls) != len(exp_calls):
        return Fail('event:invocations:%s:%d' % (who, len(calls)), 'calls=%r' % (calls,))
    if exp_calls and not (calls[0][0] == exp_calls[0][0] and calls[0][1] == exp_calls[0][1]):
        return Fail('event:arguments:%s' % who, 'expected %r got %r' % (exp_calls, calls))
    out = getattr(w, '_pending_out', None)
    if out is None:
        out = w.take()
    if eid is None:
        if out:
            return Fail('event:ack-without-id', repr([worlds.pk(p) for p in out]))
        return None
    if len(out) != 1 or isinstance(out[0], tuple):
        return Fail('event:ack-count:%d' % len(out), repr([worlds.pk(p) for p in out]))
    q = out[0]
    exp_data = ack_payload(ret if who != 'none' else None)
    if q.packet_type not in (packet.ACK, packet.BINARY_ACK) or not (q.id == eid) or (q.namespace or '/') != ns:
        return Fail('event:ack-header', 'expected ACK id=%r ns=%r, got %r' % (eid, ns, worlds.pk(q)))
    if not (q.data == exp_data):
        return Fail('event:ack-payload', 'expected %r got %r' % (exp_data, q.data))
    return None


# ---- outgoing emits with callbacks ---------------------------------------------------------------
def h_hist(t, part):
    asyncio_ = part['async']
    with notrace():
        w = worlds.CWorld(asyncio_)
        w.connect(NSS)
    model = {ns: {} for ns in NSS}
    fired = []

    def mkcb(tag):
        if asyncio_ and tag in ('cb0', 'cb1', 'cb3', 'final'):
            async def cb(*a):
                fired.append((tag, a))
                await miniloop.checkpoint('callback')      # suspended while later messages are handled
        else:
            def cb(*a):
                fired.append((tag, a))
        return cb
    if asyncio_:
        w.eio.task_per_message = True

    def emit_cb(ns, tag):
        w.call(w.c.emit('q', 1, namespace=ns, callback=mkcb(tag)))
        pk = w.take()
        if len(pk) != 1 or isinstance(pk[0], tuple) or pk[0].packet_type != packet.EVENT:
            return Fail('ack:emit-shape', repr([worlds.pk(p) for p in pk]))
        i = pk[0].id
        if i is None or (pk[0].namespace or '/') != ns:
            return Fail('ack:emit-header', repr(worlds.pk(pk[0])))
        if i in model[ns]:
            return Fail('ack:id-reused', 'id %r already outstanding on %s' % (i, ns))
        model[ns][i] = tag
        return None

    OPS = [('emit', ns) for ns in NSS] + [('plain', ns) for ns in NSS] + \
          [('ack', ns, k) for ns in NSS for k in range(3)]
    if 'first' in part:
        t.force([part['first']])
    matched = 0
    for step in range(part['n']):
        o = OPS[t.choice(len(OPS))]
        ns = o[1]
        if o[0] == 'emit':
            r = emit_cb(ns, 'cb%d' % step)
            if r:
                return r
        elif o[0] == 'plain':
            w.call(w.c.emit('q', 1, namespace=ns))
            pk = w.take()
            if len(pk) != 1 or pk[0].id is not None:
                return Fail('ack:plain-emit-has-id', repr([worlds.pk(p) for p in pk]))
        else:
            pal = o[2]
            i = t.int(0, part['n']) if pal == 0 else BIG if pal == 1 else 0
            data = [t.int(-2, 2)] if pal == 0 else [t.int(-2, 2), 7] if pal == 1 else []
            before = {n: sorted(d) for n, d in w.c.callbacks.items()}
            nfired = len(fired)
            if pal == 2:
                w.send(w.P(packet.ACK, data=data, namespace=ns, id=0))
            elif pal == 1:
                w.recv(w.P.inject(type=packet.BINARY_ACK, namespace=ns, id=i, data=data, count=1))
                w.recv(b'x')
            else:
                w.recv(w.P.inject(type=packet.ACK, namespace=ns, id=i, data=data))
            if asyncio_:
                # the message tasks run up to their first suspension (inside a coroutine callback, if any)
                lp = w.drv.loop
                lp.run_until(lambda: not lp.ready)
            if w.eio.contained:
                return Fail('ack:exception:%s:id=%s' % (type(w.eio.contained[-1][1]).__name__,
                                                        'zero' if i == 0 else 'other'),
                            'ACK id=%r on %s raised %r' % (i, ns, w.eio.contained[-1][1]))
            if i in model[ns]:
                matched += 1
                tag = model[ns].pop(i)
                if fired[nfired:] != [(tag, tuple(data))]:
                    return Fail('ack:callback-args', 'expected %r got %r' % ((tag, tuple(data)), fired[nfired:]))
            else:
                if len(fired) != nfired:
                    return Fail('ack:spurious-callback', 'ACK id=%r on %s fired %r' % (i, ns, fired[nfired:]))
                after = {n: sorted(d) for n, d in w.c.callbacks.items()}
                if after != before:
                    return Fail('ack:state-changed:id=%s' % ('zero' if i == 0 else 'other'), '%r -> %r' % (before, after))
    nfired = len(fired)
    for ns in NSS:
        try:
            r = emit_cb(ns, 'final')
        except Exception as exc:
            return Fail('ack:emit-raises:%s' % type(exc).__name__, repr(exc))
        if r:
            return r
    w.finish()
    if len(fired) != nfired:
        return Fail('ack:late-callback', repr(fired[nfired:]))
    t.reached('history')
    t.note('matched acks', matched)
    return None


def h_call_sync(t, part):
    with notrace():
        w = worlds.CWorld(False)
        w.connect(NSS)
    ns = NSS[t.choice(2)]
    acked = []
    st = {}

    def hook(ev, timeout):
        for _ in range(2):
            k = t.choice(3)
            if k == 0:
                return
            pk = [p for p in w.take() if not isinstance(p, tuple) and p.packet_type == packet.EVENT]
            if pk:
                st['id'] = pk[0].id
            if k == 1 and not acked:
                nargs = t.choice(3)
                data = [t.int(-2, 2) for _ in range(nargs)]
                acked.append(data)
                w.send(w.P(packet.ACK, data=data, namespace=ns, id=st['id']))
            elif k == 2:
                # same id, other namespace: must not complete the call
                w.send(w.P(packet.ACK, data=[99], namespace=NSS[1 - NSS.index(ns)], id=st['id']))
            if ev.is_set():
                return
    waithook.HOOK[0] = hook
    try:
        try:
            r = ('ok', w.c.call('q', 5, namespace=ns, timeout=3))
        except exceptions.TimeoutError:
            r = ('timeout',)
    finally:
        waithook.HOOK[0] = None
    t.reached('call')
    if acked:
        d = acked[0]
        exp = None if len(d) == 0 else d[0] if len(d) == 1 else tuple(d)
        if r[0] != 'ok' or not (r[1] == exp):
            return Fail('call:result', 'acked %r, call gave %r' % (d, r))
    elif r[0] != 'timeout':
        return Fail('call:no-ack-no-timeout', repr(r))
    return None


def h_call_async(t, part):
    with notrace():
        w = worlds.CWorld(True)
        w.connect(NSS)
    w.drv.loop.chooser = lambda n: t.choice(n)
    ns = NSS[t.choice(2)]
    acked = []
    out = {}

    async def caller():
        try:
            out['r'] = ('ok', await w.c.call('q', 5, namespace=ns, timeout=3))
        except exceptions.TimeoutError:
            out['r'] = ('timeout',)

    async def server():
        await miniloop._Suspend('cond', lambda: len(w.eio.out) > w.pos, None, 'server waits for event')
        pk = [p for p in w.take() if not isinstance(p, tuple) and p.packet_type == packet.EVENT]
        k = t.choice(3)
        if k == 1:
            nargs = t.choice(3)
            data = [t.int(-2, 2) for _ in range(nargs)]
            acked.append(data)
            await w.eio.recv(worlds.encode_frames(w.P(packet.ACK, data=data, namespace=ns, id=pk[0].id))[0])
        elif k == 2:
            await w.eio.recv(worlds.encode_frames(w.P(packet.ACK, data=[99], namespace=NSS[1 - NSS.index(ns)],
                                                      id=pk[0].id))[0])

    t1 = miniloop.create_task(caller(), 'caller')
    t2 = miniloop.create_task(server(), 'server')
    try:
        w.drv.loop.drain()
    except miniloop.Deadlock as ex:
        return Fail('call:deadlock', str(ex))
    for tk in (t1, t2):
        if tk.exc:
            return Fail('call:task-exception:%s' % type(tk.exc).__name__, repr(tk.exc))
    r = out.get('r')
    t.reached('call')
    if acked:
        d = acked[0]
        exp = None if len(d) == 0 else d[0] if len(d) == 1 else tuple(d)
        if r[0] == 'ok' and not (r[1] == exp):
            return Fail('call:result', 'acked %r, call gave %r' % (d, r))
    elif r is None or r[0] != 'timeout':
        return Fail('call:no-ack-no-timeout', repr(r))
    return None


NOPS = 2 + 2 + 6


def hist_parts(tier):
    n = 3 if tier == 'quick' else 5
    return [{'async': a, 'n': n, 'first': f} for a in (False, True) for f in range(NOPS)]


def event_parts(tier):
    out = [{'async': a, 'who': wh, 'binary': b} for a in (False, True) for wh in ('fn', 'none', 'catchall', 'cls')
           for b in (False, True)]
    out += [{'async': a, 'who': 'fn', 'binary': b, 'overlap': True} for a in (False, True) for b in (False, True)]
    return out


CHECKS = [
    dict(name='event', fn=h_event, parts=event_parts, budget={'quick': 180, 'thorough': 200}),
    dict(name='history', fn=h_hist, parts=hist_parts, budget={'quick': 180, 'thorough': 900}),
    dict(name='call-threaded', fn=h_call_sync, parts=[{}], budget={'quick': 180, 'thorough': 120}),
    dict(name='call-asyncio', fn=h_call_async, parts=[{}], budget={'quick': 180, 'thorough': 120}),
]

META = dict(
    explanation='Real Client/AsyncClient: _handle_eio_message -> _handle_event/_handle_ack, emit(callback=), call(), '
                '_generate_ack_id, against a reference table of outstanding (namespace, id) -> callback.',
    bounds={'quick': 'event: one EVENT/BINARY_EVENT on / or /a, id in {None, 0, symbolic 1..3, 10^20}, 0..2 symbolic '
                     'arguments (int, str<=2 or bytes<=2), responsible party in {function, nobody, catch-all, class '
                     'namespace}, sync/coroutine, return in {None, scalar, tuple, list}; history: 3 operations from '
                     '{emit with callback, plain emit, ACK/BINARY_ACK with symbolic id 0..3, 10^20, or 0 through the '
                     'codec} on 2 namespaces then one emit-with-callback per namespace; call(): up to 2 environment '
                     'actions during the wait / all miniloop schedules',
            'thorough': 'history of 5 operations'},
    outside=['several events in sequence (order is C02)', 'ids above 3 other than 10^20', 'real threads for the threaded '
             'client\'s thread-per-message delivery: modelled as re-entrant delivery while a handler runs'],
    stubs=['engine.io client -> vf.stubs.FakeEioClient/FakeAEioClient (messages handled inline in arrival order)',
           'JSON text -> TokJson', 'asyncio -> vf.miniloop', 'Event.wait -> vf.waithook',
           'packets with symbolic ids injected at Packet.decode'],
    assumptions=['engine.io client contains exceptions of the message handler; such an exception is a violation here'],
)
