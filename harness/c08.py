"""C08 Client state mirrors the server; disconnect reported once per namespace."""
import socketio
from socketio import packet, exceptions

from vf import worlds, miniloop, waithook
from vf.tape import Fail, notrace

PROPERTY = 'C08'
NSS = ['/', '/a', '/b']
NS_SETS = [['/'], ['/a'], ['/', '/a'], ['/a', '/'], ['/a', '/b'], None]      # None: connect() without namespaces


def h(t, part):
    asyncio_ = part['async']
    classns = part['classns']
    ev = []

    def rec(kind, ns, a):
        ev.append((kind, ns) + tuple(a))

    with notrace():
        w = worlds.CWorld(asyncio_)
        if classns:
            base = socketio.AsyncClientNamespace if asyncio_ else socketio.ClientNamespace
            for ns in NSS:
                if asyncio_:
                    async def oc(self, *a, ns=ns):
                        rec('connect', ns, a)

                    async def od(self, *a, ns=ns):
                        rec('disconnect', ns, a)

                    async def oe(self, *a, ns=ns):
                        rec('connect_error', ns, a)
                else:
                    def oc(self, *a, ns=ns):
                        rec('connect', ns, a)

                    def od(self, *a, ns=ns):
                        rec('disconnect', ns, a)

                    def oe(self, *a, ns=ns):
                        rec('connect_error', ns, a)
                w.c.register_namespace(type('N', (base,), {'on_connect': oc, 'on_disconnect': od, 'on_connect_error': oe})(ns))
        if classns in (False, 'both'):
            for ns in NSS + (['*'] if classns == 'both' else []):
                for kind in ('connect', 'disconnect', 'connect_error'):
                    if asyncio_:
                        async def f(*a, kind=kind, ns=ns):
                            rec(kind, ns, a)
                    else:
                        def f(*a, kind=kind, ns=ns):
                            rec(kind, ns, a)
                    w.c.on(kind, f, namespace=ns)
    c = w.c
    issued = {'n': 0}
    plan = {'answers': None}        # per requested namespace: accept / refuse / silent (drawn when the CONNECT is seen)
    server_view = {}                # namespace -> sid accepted and not ended (what the server believes)

    def answer_connects():
        """frames the server sends in answer to the CONNECT packets it has seen"""
        out = []
        for p in w.take():
            if isinstance(p, tuple) or p.packet_type != packet.CONNECT:
                continue
            ns = p.namespace or '/'
            seen_connects.append((ns, p.data))
            # (with wait=False the outcome for several namespaces depends on the order of the answers: only single requests)
            may_end = plan.get('may_end')
            k = t.choice(4 if may_end else 3) if plan['answers'] == 'any' else 0
            if k == 3:
                # accepted and ended at once (what a server with always_connect sends for a refusal): CONNECT, then DISCONNECT
                issued['n'] += 1
                accepted_then_ended.append(ns)
                ever_accepted['v'] = True
                out.append(w.P(packet.CONNECT, data={'sid': 'sid%d' % issued['n']}, namespace=ns))
                out.append(w.P(packet.DISCONNECT, namespace=ns))
            elif k == 0:
                issued['n'] += 1
                sid = 'sid%d' % issued['n']
                server_view[ns] = sid
                ever_accepted['v'] = True
                out.append(w.P(packet.CONNECT, data={'sid': sid}, namespace=ns))
            elif k == 1:
                refused.append(ns)
                out.append(w.P(packet.CONNECT_ERROR, data={'message': 'no', 'data': ns}, namespace=ns))
            # k == 2: silence
        return [worlds.encode_frames(p)[0] for p in out]

    seen_connects, refused, accepted_then_ended = [], [], []
    ever_accepted = {'v': False}
    lost = {'v': False}
    stop = {'v': False}
    if asyncio_:
        w.drv.loop.max_steps = 3000

        async def server():
            while not stop['v']:
                await miniloop._Suspend('cond', lambda: stop['v'] or len(w.eio.out) > w.pos, None, 'server idle')
                frs = answer_connects()
                for fr in frs:
                    await w.eio.recv(fr)
                if frs and plan.get('may_lose') and w.eio.state == 'connected' and t.choice(2):
                    # the transport is lost right behind the answers, before connect() has looked at them
                    lost['v'] = True
                    server_view.clear()
                    await w.eio.lose()
        miniloop.create_task(server(), 'server')
    else:
        def hook(event, timeout):
            frs = answer_connects()
            for fr in frs:
                w.eio.recv(fr)
            if frs and plan.get('may_lose') and w.eio.state == 'connected' and t.choice(2):
                lost['v'] = True
                server_view.clear()
                w.eio.lose()
        waithook.HOOK[0] = hook

    def check_mirror(where):
        if dict(c.namespaces) != server_view:
            return Fail('client:namespaces-mirror', '%s: client %r, server %r' % (where, dict(c.namespaces), server_view))
        for ns in NSS:
            if c.get_sid(ns) != server_view.get(ns):
                return Fail('client:get_sid', '%s: %s -> %r, server %r' % (where, ns, c.get_sid(ns), server_view.get(ns)))
        # connected: set while any accepted namespace remains, cleared when the last one has ended (a connection on
        # which nothing was ever accepted - wait=False with refusals or silence - is outside this clause)
        if server_view and not c.connected:
            return Fail('client:connected-flag', '%s: connected=False while the server has %r' % (where, server_view))
        if not server_view and ever_accepted['v'] and c.connected:
            return Fail('client:connected-flag', '%s: connected=True after the last namespace ended' % where)
        return None

    try:
        rounds = part['rounds']
        if 'first' in part:
            t.force(part['first'])
        for rnd in range(rounds):
            # ---- connect ----------------------------------------------------------------------------------------
            if rnd == 0:
                nss = NS_SETS[t.choice(len(NS_SETS))]
                authk = t.choice(3)
            else:
                nss, authk = NS_SETS[2], 0      # the attempt after a failed connect(wait=True)
            default_nss = nss is None
            if default_nss:
                nss = list(NSS)         # every namespace that has handlers of either kind, each once; never '*'
            x = t.int(-2, 2)
            auth = [None, {'k': x}, (lambda: {'c': x})][authk]
            exp_auth = [{}, {'k': x}, {'c': x}][authk]
            wait = part['wait']
            plan['answers'] = 'any'
            plan['may_end'] = wait or len(nss) == 1
            plan['may_lose'] = wait and rnd == 0 and part.get('lose_during_connect', False)
            lost['v'] = False
            del seen_connects[:], refused[:], ev[:], accepted_then_ended[:]
            server_view.clear()
            ever_accepted['v'] = False
            w.take()
            ok = None
            try:
                w.call(c.connect('http://h', namespaces=None if default_nss else list(nss), auth=auth, wait=wait, wait_timeout=1))
                ok = True
            except exceptions.ConnectionError:
                ok = False
            if not wait:
                # the answers arrive after connect() returned
                if asyncio_:
                    w.drv.loop.run_until(lambda: len(w.eio.out) <= w.pos and not w.drv.loop.ready)
                else:
                    hook(None, None)
            sent_for = sorted(s[0] for s in seen_connects)
            # (a server that ends the only accepted namespace makes the client close the transport: later CONNECTs cannot be
            # sent and later answers are not delivered)
            cut_short = (bool(accepted_then_ended) or lost['v']) and w.eio.state == 'disconnected'
            if sent_for != sorted(nss) and not (cut_short and len(set(sent_for)) == len(sent_for) and set(sent_for) <= set(nss)):
                return Fail('client:connect-packets', 'requested %r, CONNECT sent for %r' % (nss, seen_connects))
            for ns, data in seen_connects:
                if not (data == exp_auth):
                    return Fail('client:connect-auth', 'auth %r, CONNECT %s carried %r' % (exp_auth, ns, data))
            all_accepted = sorted(server_view) == sorted(nss)
            t.reached('connect')
            for ns in refused:
                got = [e for e in ev if e[0] == 'connect_error' and e[1] == ns]
                if cut_short and not got:
                    continue
                if got != [('connect_error', ns, 'no', ns)] and got != [('connect_error', ns, {'message': 'no', 'data': ns})]:
                    return Fail('client:connect_error-handler', 'refusal of %s reported as %r' % (ns, got))
            if wait:
                if ok != all_accepted:
                    return Fail('client:connect-wait-result', 'accepted %r of %r, connect() %s' % (
                        sorted(server_view), nss, 'returned' if ok else 'raised'))
                if not ok:
                    if c.connected or w.eio.state != 'disconnected' or (lost['v'] and dict(c.namespaces)):
                        return Fail('client:failed-connect-leaves-connection', 'connected=%r eio=%s namespaces=%r' % (
                            c.connected, w.eio.state, dict(c.namespaces)))
                    server_view.clear()     # the transport is closed: the server forgets everything
                    continue
            conn_calls = sorted(e[1] for e in ev if e[0] == 'connect')
            if conn_calls != sorted(list(server_view) + accepted_then_ended):
                return Fail('client:connect-handler-calls', 'accepted %r (ended at once: %r), connect handler ran for %r' % (
                    sorted(server_view), accepted_then_ended, conn_calls))
            disc_calls = sorted(e[1] for e in ev if e[0] == 'disconnect')
            if disc_calls != sorted(accepted_then_ended):
                return Fail('client:disconnect-handler-calls:ended-during-connect', 'the server ended %r right after accepting; '
                            'disconnect handler ran for %r' % (accepted_then_ended, disc_calls))
            if not wait and '/' in refused:
                # documented: refusal of the default namespace ends the connection attempt on the client side
                return None
            r = check_mirror('after connect')
            if r:
                return r
            if rnd > 0:
                # second attempt: only the connection state is checked
                w.call(c.disconnect())
                server_view.clear()
                r = check_mirror('after the second attempt was closed')
                if r:
                    return r
                t.reached('second-attempt')
                return None
            # ---- connected life ---------------------------------------------------------------------------------------
            plan['answers'] = 'accept'
            was_connected = dict(server_view)
            outstanding = []
            ended = False
            midbinary = False
            for step in range(part['n']):
                del ev[:]
                op = t.choice(6)
                if op == 0:
                    ns = NSS[t.choice(3)]
                    w.take()
                    cb = t.bool()
                    fired = []
                    try:
                        w.call(c.emit('hello', x, namespace=ns, callback=(lambda *a: fired.append(a)) if cb else None))
                        sent = [worlds.pk(p) for p in w.take()]
                        if ns not in server_view:
                            return Fail('client:emit-on-unconnected-namespace', 'sent %r' % (sent,))
                        if len(sent) != 1 or sent[0][0] != packet.EVENT or sent[0][1] != ns:
                            return Fail('client:emit-packet', repr(sent))
                        if cb:
                            outstanding.append((ns, sent[0][2], fired))
                    except exceptions.BadNamespaceError:
                        if ns in server_view:
                            return Fail('client:emit-refused-on-connected-namespace', ns)
                        if w.take():
                            return Fail('client:bad-namespace-but-sent', '')
                elif op == 1:
                    # the server ends one namespace
                    ns = NSS[t.choice(3)]
                    if ns not in server_view or midbinary:
                        continue        # a server does not interleave other packets with its own attachments
                    w.send(w.P(packet.DISCONNECT, namespace=ns))
                    del server_view[ns]
                    got = [e for e in ev if e[0] == 'disconnect' and e[1] == ns]
                    if len(got) != 1:
                        return Fail('client:disconnect-handler:server-ends-namespace:count=%d' % len(got), repr(ev))
                    if not server_view:
                        ended = True
                elif op == 2:
                    # half a binary event
                    if not server_view:
                        continue
                    ns = sorted(server_view)[0]
                    fr = worlds.encode_frames(w.P(packet.EVENT, data=['bin', b'a', b'b'], namespace=ns))
                    if midbinary:
                        continue
                    w.recv(fr[0])
                    w.recv(fr[1])
                    midbinary = True
                    continue
                elif op in (3, 4, 5):
                    live = sorted(server_view)
                    if op == 3:
                        w.call(c.disconnect())
                    elif op == 4:
                        w.call(w.eio.lose())
                    else:
                        w.call(w.eio.server_close())
                    server_view.clear()
                    got = sorted(e[1] for e in ev if e[0] == 'disconnect')
                    if all_accepted and got != live:
                        return Fail('client:disconnect-handler:%s' % ['disconnect()', 'transport-loss', 'server-close'][op - 3],
                                    'connected namespaces %r, disconnect handler ran for %r' % (live, got))
                    ended = True
                r = check_mirror('after step %d op %d' % (step, op))
                if r:
                    return r
                if ended:
                    break
            if not ended:
                del ev[:]
                live = sorted(server_view)
                w.call(c.disconnect())
                server_view.clear()
                got = sorted(e[1] for e in ev if e[0] == 'disconnect')
                if all_accepted and got != live:
                    return Fail('client:disconnect-handler:final-disconnect()', 'connected %r, handler ran for %r' % (live, got))
                r = check_mirror('after final disconnect')
                if r:
                    return r
            t.reached('life')
            # ---- nothing survives into the next connection --------------------------------------------------------
            if c.sid is not None:
                return Fail('client:survivor:sid', repr(c.sid))
            plan['answers'] = 'accept'
            plan['may_lose'] = False
            w.take()
            try:
                w.call(c.connect('http://h', namespaces=['/', '/a'], wait=wait, wait_timeout=1))
            except exceptions.ConnectionError as e2:
                return Fail('client:reconnect-refused', repr(e2))
            if not wait:
                if asyncio_:
                    w.drv.loop.run_until(lambda: len(w.eio.out) <= w.pos and not w.drv.loop.ready)
                else:
                    hook(None, None)
            for ns, i, fired in outstanding:
                w.send(w.P(packet.ACK, data=['late'], namespace=ns, id=i))
                if fired:
                    return Fail('client:survivor:callback', 'a callback of the previous connection fired: %r' % (fired,))
            nev = len(ev)
            w.recv(b'b')        # a stray attachment must not complete the previous connection's binary packet
            if [e for e in ev[nev:] if e[0] not in ('connect', 'disconnect', 'connect_error')]:
                return Fail('client:survivor:binary-packet', repr(ev[nev:]))
            r = check_mirror('after reconnect')
            if r:
                return r
            w.call(c.disconnect())
            server_view.clear()
            return None
        return None
    finally:
        waithook.HOOK[0] = None
        stop['v'] = True
        if asyncio_:
            try:
                w.drv.finish()
            except Exception:
                pass


def parts(tier):
    out = []
    for a in (False, True):
        for cn in (False, True):
            for wt in (True, False):
                for f0 in range(5):
                    for f1 in range(3):
                        n = (2 if wt else 1) if tier == 'quick' else (3 if wt else 2)
                        out.append({'async': a, 'classns': cn, 'wait': wt, 'rounds': 2 if wt else 1, 'n': n, 'first': [f0, f1]})
        # connect() without namespaces; function handlers, a class-based namespace and a catch-all registered for the same names
        # the transport is lost behind the server's answers while connect(wait=True) has not returned yet
        for cn in (False, True):
            for f0 in range(5):
                out.append({'async': a, 'classns': cn, 'wait': True, 'rounds': 2, 'n': 1, 'first': [f0], 'lose_during_connect': True})
        for wt in (True, False):
            for f1 in range(3):
                out.append({'async': a, 'classns': 'both', 'wait': wt, 'rounds': 2 if wt else 1, 'n': 1, 'first': [5, f1]})
    return out


CHECKS = [dict(name='client-life', fn=h, parts=parts, budget={'quick': 180, 'thorough': 1200}, per_path_s=30)]

META = dict(
    explanation='Real Client/AsyncClient on the fake engine.io client with the harness as server: connect() with every '
                'subset/order of two namespaces (and a pair of non-default ones; and without namespaces, with function handlers, class-based namespaces and a catch-all registered for the same three names), auth as nothing / value / callable, wait on and off, every pattern of '
                'accept / refuse / silence / accept-and-end-at-once per namespace; then a connected life (emit with and without callback on '
                'connected and unconnected namespaces, the server ending one namespace, half a binary packet, '
                'disconnect(), transport loss, server close); then a fresh connection into which a late ACK and a stray '
                'attachment are sent. After every step the client\'s namespaces / get_sid / connected are compared with '
                'what the server has accepted and not ended.',
    bounds={'quick': 'a failed connect(wait=True) is followed by a second attempt on both namespaces; connected life of 2 '
                     'operations (wait=True) / 1 operation (wait=False); 2 namespaces', 'thorough': 'lives of 3 / 2 operations'},
    outside=['DISCONNECT / CONNECT_ERROR for namespaces the server never saw', 'reconnection (C10)',
             'threaded delivery of messages in parallel (engine.io starts a task per message; here inline, in order)'],
    stubs=['engine.io client -> FakeEioClient/FakeAEioClient', 'Event.wait -> vf.waithook (answers arrive during the wait)',
           'JSON text -> TokJson', 'asyncio -> vf.miniloop (FIFO)'],
    assumptions=['with wait=False a refusal of the default namespace ends the check of that history (the library resets '
                 'all namespaces in that case, documented behaviour of the reference implementation)'],
)
