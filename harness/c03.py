"""C03 Rooms: an emit reaches exactly the addressed members, once each."""
from socketio import packet

from vf import worlds
from vf.tape import Fail, notrace

PROPERTY = 'C03'
ES = ['e0', 'e1', 'e2']
ES4 = ES + ['e3']       # e3: a newcomer that connects during the step


def h(t, part):
    asyncio_ = part['async']
    # ---- pre-state: an arbitrary membership matrix, built through the public API ----------------------------
    R = ['r1', 7, 'SID0']           # 'SID0' stands for the session id of client 0 (a room named like a session id)
    member = {(c, r): False for c in range(3) for r in range(3)}
    for c in range(3):
        for r in range(3):
            if r == 2 and c == 0:
                continue            # client 0 is in its own personal room by construction
            if c == 2 and r != 0 and not part.get('wide'):
                continue
            member[(c, r)] = t.bool()
    on_a = t.bool() if part.get('wide') else True     # client 1 is also connected to /a (and in room r1 there)
    own_room = t.bool()             # client 0 is still in its personal room (False: it left it earlier)
    with notrace():
        w = worlds.SWorld(asyncio_, async_handlers=False, namespaces=['/', '/a'])
        for ns in ('/', '/a'):
            if asyncio_:
                async def oc(sid, environ):
                    return None
            else:
                def oc(sid, environ):
                    return None
            w.s.on('connect', oc, namespace=ns)
        sids = []
        for e in ES:
            w.open(e)
            sids.append(w.connect(e, '/'))
        rooms = ['r1', 7, sids[0]]
        model = {sid: {i} for i, sid in enumerate(sids)}        # room -> set(client index), namespace '/'
        live = {0, 1, 2}
        for (c, r), m in member.items():
            if m:
                w.call(w.s.enter_room(sids[c], rooms[r]))
                model.setdefault(rooms[r], set()).add(c)
        if not own_room:
            w.call(w.s.leave_room(sids[0], sids[0]))
            model[sids[0]].discard(0)
        sid_a = None
        if on_a:
            sid_a = w.connect('e1', '/a')
            w.call(w.s.enter_room(sid_a, 'r1', namespace='/a'))
        for e in ES:
            w.take(e)

    def recipients():
        """which transports got exactly which packets since the last take (multiset per transport)"""
        return {e: [worlds.pk(p) for p in w.take(e)] for e in (ES4 if len(sids) > 3 else ES)}

    def expect(to, skip):
        if to is None:
            who = set(live)
        else:
            tos = to if isinstance(to, list) else [to]
            who = set()
            for r in tos:
                who |= model.get(r, set())
        sk = skip if isinstance(skip, list) else [skip]
        return {c for c in who if sids[c] not in sk}

    def probe(to, skip, tag):
        w.call(w.s.emit('p', tag, to=to, skip_sid=skip))
        got = recipients()
        exp = expect(to, skip)
        for c, e in enumerate(ES4 if len(sids) > 3 else ES):
            want = [(packet.EVENT, '/', None, ['p', tag])] if c in exp else []
            if got[e] != want:
                kind = 'missing' if (c in exp and not got[e]) else 'duplicate' if len(got[e]) > 1 else \
                    'unaddressed' if c not in exp else 'wrong-packet'
                return Fail('rooms:emit:%s' % kind, 'emit(to=%r, skip_sid=%r) after %s: client %d got %r, expected %r; '
                            'model %r' % (to, skip, tag, c, got[e], want, model))
        return None

    # ---- one operation from the arbitrary state (plus, in history mode, more) -----------------------------------
    OPS = [('enter', c, r) for c in range(3) for r in range(3)] + [('leave', c, r) for c in range(3) for r in range(3)] + \
          [('close', r) for r in range(4)] + [('disconnect', c) for c in range(3)] + \
          [('emit', to, sk) for to in range(8) for sk in range(3)] + \
          [('unknown-namespace', k) for k in range(3)] + [('other-namespace', k) for k in range(2)] + \
          [('newcomer', k) for k in range(2)]
    if 'first' in part:
        t.force([part['first']])
    for step in range(part['n']):
        o = OPS[t.choice(len(OPS))]
        tag = 'step%d' % step
        if o[0] == 'enter':
            c, r = o[1], rooms[o[2]]
            if c in live:
                w.call(w.s.enter_room(sids[c], r))
                model.setdefault(r, set()).add(c)
        elif o[0] == 'leave':
            c, r = o[1], rooms[o[2]]
            w.call(w.s.leave_room(sids[c], r))
            if r in model:
                model[r].discard(c)
        elif o[0] == 'close':
            r = (rooms + ['never-created'])[o[1]]
            w.call(w.s.close_room(r))
            model.pop(r, None)
        elif o[0] == 'disconnect':
            c = o[1]
            if c in live:
                if c == 0:
                    w.send('e0', w.P(packet.DISCONNECT, namespace='/'))
                elif c == 1:
                    w.call(w.s.disconnect(sids[1]))
                else:
                    w.lose('e2')
                live.discard(c)
                for r in model:
                    model[r].discard(c)
                recipients()
        elif o[0] == 'emit':
            to = [None, 'r1', 7, sids[0], ['r1', 7], [sids[0], 'r1'], [7, 'never-created'], ['r1', 'never-created', 7]][o[1]]
            skip = [None, sids[1], [sids[0], sids[2]]][o[2]]
            r = probe(to, skip, tag)
            if r:
                return r
        elif o[0] == 'newcomer':
            # a client connects and is given a session id that is already the name of a room (predictable / application-
            # chosen ids): it joins that room, nobody leaves it
            if len(sids) == 3:
                name = ['r1', 'fresh-name'][o[1]]
                w.eio.forced_ids = [name]
                w.open('e3')
                got = w.connect('e3', '/')
                if got != name:
                    return Fail('rooms:newcomer-sid', 'expected the forced session id %r, got %r' % (name, got))
                sids.append(got)
                live.add(3)
                model.setdefault(name, set()).add(3)
                recipients()
        elif o[0] == 'unknown-namespace':
            k = o[1]
            if k == 0:
                w.call(w.s.close_room('r1', namespace='/zz'))
            elif k == 1:
                w.call(w.s.leave_room(sids[0], 'r1', namespace='/zz'))
            else:
                w.call(w.s.emit('p', 'zz', to='r1', namespace='/zz'))
        else:
            if sid_a is not None:
                if o[1] == 0:
                    w.call(w.s.leave_room(sid_a, 'r1', namespace='/a'))
                else:
                    w.call(w.s.close_room('r1', namespace='/a'))
            recipients()
        stray = recipients()
        if any(stray.values()):
            return Fail('rooms:unexpected-delivery', '%r delivered %r' % (o, stray))
    # ---- observations: list emits first (they must not disturb anything), then single rooms, then rooms() -------
    for to, skip in ([['r1', 7], None], [[sids[0], 'r1'], sids[1]], [['r1', 'never-created', 7], None], [None, None], ['r1', None], [7, sids[1]],
                     [sids[0], None], [sids[1], None], [sids[0], sids[0]]):
        r = probe(to, skip, 'final')
        if r:
            return r
    for c in range(len(sids)):
        got = set(w.s.rooms(sids[c]))
        want = {r for r, ms in model.items() if c in ms}
        if got != want:
            return Fail('rooms:rooms()', 'rooms(client %d) = %r, expected %r' % (c, got, want))
    # never to a connection on another namespace: an emit on /a reaches only the /a session
    if sid_a is not None:
        w.call(w.s.emit('p', 'a', namespace='/a'))
        got = recipients()
        if got['e0'] or got['e2']:
            return Fail('rooms:emit:other-namespace', repr(got))
    # no empty container is left behind
    for ns, rs in w.s.manager.rooms.items():
        for room, bd in rs.items():
            if len(bd) == 0:
                return Fail('rooms:empty-room-left', '%r in %s' % (room, ns))
    t.reached('rooms')
    return None


NOPS = 9 + 9 + 4 + 3 + 24 + 3 + 2 + 2


def parts(tier):
    out = []
    for a in (False, True):
        if tier == 'quick':
            out += [{'async': a, 'n': 1, 'first': f} for f in range(NOPS)]
        else:
            out += [{'async': a, 'n': 2, 'first': f} for f in range(NOPS)]
    return out


CHECKS = [dict(name='rooms-step', fn=h, parts=parts, budget={'quick': 180, 'thorough': 1500}, per_path_s=20)]

META = dict(
    explanation='Inductive step over room state: an arbitrary membership matrix (which of 3 clients is in which of the '
                'rooms r1, 7 and the room named like client 0\'s session id; client 1 optionally also on /a) is built '
                'through the real Server/AsyncServer API, one (thorough: two) arbitrary operation(s) is applied, and the '
                'complete observable behaviour - recipients of eight probe emits read from the per-transport outboxes, '
                'rooms(sid) for every client, no empty room containers - is compared with a set-based reference model. '
                'Every reachable membership state over this universe is a pre-state, so histories of any length over it '
                'are covered as far as the observations are functions of the state.',
    bounds={'quick': '3 clients x 3 rooms (string, integer, session-id-named) on / (+ client 1 on /a): 2^7 pre-states (incl. client 0 having left its personal room) x '
                     '2 x %d operations (enter, leave, close incl. unknown room, disconnect by 3 causes, emit with 8 '
                     'targets x 3 skip_sid forms, operations on an unknown namespace and on /a, a fourth client connecting under a session id that is already a room name) x 9 probe emits' % NOPS,
            'thorough': 'the same pre-states, two consecutive operations'},
    outside=['empty-list and falsy targets (broadcast by definition)', 'tuple room names', 'more than 3 clients / 3 rooms',
             'pub/sub managers (C07)'],
    stubs=['engine.io server -> FakeEio/FakeAEio (per-transport outboxes)', 'JSON text -> TokJson',
           'asyncio -> vf.miniloop (FIFO)'],
    assumptions=['dict insertion order is irrelevant to the set-valued observations'],
)
