"""Side finding (unchanged tree): Socket.IO packets that follow an Engine.IO
CLOSE packet in the same long-polling POST payload are still delivered to the
Socket.IO server AFTER it has processed the disconnect, and it registers state
for the dead session that nothing will ever remove.

Real engineio.Server (threading mode), driven through handle_request() with
WSGI environs; no network.
"""
import io
import sys
import socketio


def request(sio, method, query, body=b''):
    environ = {'REQUEST_METHOD': method, 'PATH_INFO': '/socket.io/',
               'QUERY_STRING': query, 'CONTENT_LENGTH': str(len(body)),
               'wsgi.input': io.BytesIO(body), 'wsgi.url_scheme': 'http',
               'SERVER_NAME': 'x', 'SERVER_PORT': '80'}
    status = []
    ret = sio.handle_request(environ, lambda s, h: status.append(s))
    return status[0], b''.join(ret)


def main():
    sio = socketio.Server(async_mode='threading')

    @sio.event
    def connect(sid, environ):
        pass

    problems = []
    for i, tail in enumerate(['40',
                              '451-["upload",{"_placeholder":true,"num":0}]']):
        status, body = request(sio, 'GET', 'transport=polling&EIO=4')
        eio_sid = socketio.packet.Packet.json.loads(body[1:].decode())['sid']
        # one POST: Engine.IO CLOSE, then an Engine.IO MESSAGE
        request(sio, 'POST', 'transport=polling&EIO=4&sid=' + eio_sid,
                ('1\x1e' + tail).encode())
        print('payload 1<RS>%s -> rooms=%r binary=%r environ=%r' % (
            tail, sio.manager.rooms, list(sio._binary_packet),
            list(sio.environ)))
    if sio.manager.rooms:
        problems.append('ghost client in rooms: %r' % sio.manager.rooms)
    if sio._binary_packet:
        problems.append('partial binary packet kept for a closed session: %r'
                        % list(sio._binary_packet))
    for p in problems:
        print('C11 VIOLATED:', p)
    return 1 if problems else 0


if __name__ == '__main__':
    sys.exit(main())
