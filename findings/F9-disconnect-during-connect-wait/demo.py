"""The server accepts a namespace and ends it at once (what a python-socketio server with always_connect=True sends when
the connect handler refuses) while Client.connect(wait=True) is still waiting. Exit 0 = the client's state mirrors the
server's afterwards."""
import threading
from unittest import mock

import socketio

events = []
c = socketio.Client(reconnection=False)
c.eio = mock.MagicMock()
c.eio.sid = 'eio'
c.eio.state = 'connected'
c.eio.create_event.side_effect = threading.Event
c.eio.connect.side_effect = lambda *a, **kw: c._handle_eio_connect()
c.on('connect', lambda: events.append('connect'))
c.on('disconnect', lambda *a: events.append('disconnect'))


def server():
    c._handle_eio_message('0{"sid":"S1"}')     # CONNECT accepted ...
    c._handle_eio_message('1')                  # ... and ended: DISCONNECT for the default namespace


threading.Timer(0.2, server).start()
try:
    c.connect('http://localhost', wait=True, wait_timeout=1)
    outcome = 'returned'
except socketio.exceptions.ConnectionError:
    outcome = 'raised ConnectionError'
print('connect()', outcome, '| connected =', c.connected, '| namespaces =', c.namespaces, '| handlers ran:', events)
ok = not c.connected and c.namespaces == {} and events == ['connect', 'disconnect']
print('OK' if ok else 'VIOLATION: the server has ended the namespace, the client still lists it and never reported the disconnect')
raise SystemExit(0 if ok else 1)
