"""emit(..., callback=cb) with data that cannot be JSON-encoded: Server.emit raises TypeError, AsyncServer.emit used to return
normally (the exception died in a task nobody looked at). Exit 0 = both raise the same."""
import asyncio
from unittest import mock

import socketio


def threaded():
    sio = socketio.Server(async_handlers=False)
    sio.eio = mock.MagicMock()
    sio.eio.generate_id.side_effect = ['s1']
    sio._handle_eio_connect('e1', {})
    sio._handle_eio_message('e1', '0')
    try:
        sio.emit('q', {'ids': {1, 2}}, to='s1', callback=lambda *a: None)
        return 'returned'
    except TypeError:
        return 'TypeError'


async def asynchronous():
    sio = socketio.AsyncServer(async_handlers=False)
    sio.eio = mock.MagicMock()
    sio.eio.generate_id.side_effect = ['s1']
    sio.eio.send = mock.AsyncMock()
    await sio._handle_eio_connect('e1', {})
    await sio._handle_eio_message('e1', '0')
    try:
        await sio.emit('q', {'ids': {1, 2}}, to='s1', callback=lambda *a: None)
        return 'returned'
    except TypeError:
        return 'TypeError'

a, b = threaded(), asyncio.run(asynchronous())
print('Server.emit:', a, '| AsyncServer.emit:', b)
raise SystemExit(0 if a == b else 1)
