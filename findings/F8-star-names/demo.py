import socketio
from unittest import mock
seen = []
sio = socketio.Server(async_handlers=False)
sio.eio = mock.MagicMock()
sio.eio.generate_id.side_effect = ['sid-offender']
@sio.on('*')
def catch_all(event, sid, *data):
    seen.append(('catch_all', event, sid, data))
sio._handle_eio_connect('eio1', {})
sio._handle_eio_message('eio1', '0')
sio._handle_eio_message('eio1', '2["*","VICTIM","x"]')
print(seen)
assert seen == [('catch_all', '*', 'sid-offender', ('VICTIM', 'x'))], 'catch-all handler was told the event came from %r' % (seen[0][2],)
