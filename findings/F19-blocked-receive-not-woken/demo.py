import sys, threading, time
sys.path.insert(0, '' + __import__('os').path.join(__import__('os').path.dirname(__import__('os').path.abspath(__file__)), 'm12') + '')
from demo import StubbedSimpleClient
from socketio.exceptions import *
# (a) receive() with no timeout blocked while the connection ends for good
sc = StubbedSimpleClient(reconnection=False, handle_sigint=False)
sc.connect('http://stub')
res = []
def rx():
    try: res.append(sc.receive())
    except Exception as e: res.append(repr(e))
t = threading.Thread(target=rx, daemon=True); t.start()
time.sleep(0.3)
sc.client.eio.deliver('1')
t.join(2)
print('(a) receiver after final disconnect:', res if not t.is_alive() else 'STILL BLOCKED')
# (b) call() with a timeout and no ack
sc = StubbedSimpleClient(reconnection=False, handle_sigint=False)
sc.connect('http://stub')
res = []
def cl():
    try: res.append(sc.call('x', timeout=0.2))
    except Exception as e: res.append(repr(e))
t = threading.Thread(target=cl, daemon=True); t.start()
t.join(2)
n = sum(1 for p in sc.client.eio.sent if p.startswith('2'))
print('(b) call(timeout=0.2) after 2s:', res if not t.is_alive() else f'STILL RUNNING, event emitted {n} times')
