"""instrument(auth=<callable>) with a callable that raises on a payload of an unexpected shape (here: no payload at all).
Exit 0 = the client is refused and is not a member of the admin namespace."""
from unittest import mock

import socketio

sio = socketio.Server(async_handlers=False)
sio.instrument(auth=lambda auth: auth['username'] == 'admin' and auth['password'] == 'secret', mode='development')
sio.eio = mock.MagicMock()
sio.eio.generate_id.side_effect = ['sid-%d' % i for i in range(10)]
sio._handle_eio_connect('eio1', {})
try:
    sio._handle_eio_message('eio1', '0/admin,')        # CONNECT to /admin without credentials
except Exception as e:                                  # engine.io would log this
    print('connect handler raised', repr(e))
members = list(sio.manager.get_participants('/admin', None))
print('members of /admin:', members)
raise SystemExit(1 if members else 0)
