import socketio
from socketio import exceptions
class Ev:
    def clear(self): pass
    def set(self): pass
    def wait(self, timeout=None): return False
c = socketio.Client(reconnection_attempts=2, randomization_factor=0)
c._reconnect_abort = Ev()
started = []
c.start_background_task = lambda t, *a, **k: started.append(t) or 'task'
c.connection_namespaces = ['/']
# accidental loss #1 -> effort starts
c.connected = True; c.namespaces = {'/': 's'}; c.eio.state = 'connected'
c._handle_eio_disconnect(c.reason.TRANSPORT_ERROR)
assert started == [c._handle_reconnect]
# the effort runs and gives up after 2 failed attempts
real_connect = c.connect
def fail(*a, **k): raise exceptions.ConnectionError('x')
c.connect = fail
c._handle_reconnect()
print('after giving up, _reconnect_task =', c._reconnect_task)
# the application connects again by hand later, then the transport is lost again
c.connected = True; c.namespaces = {'/': 's'}; c.eio.state = 'connected'
c._handle_eio_disconnect(c.reason.TRANSPORT_ERROR)
print('efforts started:', len(started), '(2 expected by the property)')
