"""development-mode instrumentation with an admin connected: a client event that carries a binary attachment must still reach
the application's handler. Exit 0 = it does."""
from unittest import mock

import socketio

seen = []
sio = socketio.Server(async_handlers=False)
sio.instrument(auth=False, mode='development')
sio.eio = mock.MagicMock()
sio.eio.generate_id.side_effect = ['sid-%d' % i for i in range(10)]
sio.start_background_task = lambda target, *a, **kw: None
sio.on('upload', lambda sid, data: seen.append((sid, data)))
sio.on('connect', lambda sid, environ: None)
for eio_sid in ('admin-transport', 'client-transport'):
    sio._handle_eio_connect(eio_sid, {})
sio._handle_eio_message('admin-transport', '0/admin,')
sio._handle_eio_message('client-transport', '0')
try:
    sio._handle_eio_message('client-transport', '51-["upload",{"_placeholder":true,"num":0}]')
    sio._handle_eio_message('client-transport', b'file contents')
except Exception as e:          # engine.io would log it
    print('raised', repr(e))
print('application handler saw', seen)
raise SystemExit(0 if len(seen) == 1 else 1)
