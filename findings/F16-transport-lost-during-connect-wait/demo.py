"""The transport is lost right after the server accepted the namespace, while Client.connect(wait=True) has not returned yet.
Exit 0 = afterwards the client does not claim to be connected."""
import threading
from unittest import mock

import socketio

events = []
c = socketio.Client(reconnection=False)
c.eio = mock.MagicMock()
c.eio.sid = 'eio'
c.eio.state = 'connected'
c.eio.create_event.side_effect = threading.Event
c.eio.connect.side_effect = lambda *a, **kw: c._handle_eio_connect()
c.on('connect', lambda: events.append('connect'))
c.on('disconnect', lambda *a: events.append('disconnect'))

release = threading.Event()
real_wait = threading.Event.wait


done = []


def server():
    if done:
        return
    done.append(1)
    c._handle_eio_message('0{"sid":"S1"}')          # CONNECT accepted
    c.eio.state = 'disconnected'
    c._handle_eio_disconnect('transport error')      # ... and the transport dies before connect() looks at it


# the answers arrive, and the loss is processed, while connect() is blocked in its wait
orig = c.eio.create_event.side_effect


class Ev(threading.Event):
    def wait(self, timeout=None):
        if not self.is_set():
            server()
        return super().wait(timeout)


c.eio.create_event.side_effect = Ev
try:
    c.connect('http://localhost', wait=True, wait_timeout=1)
    outcome = 'returned'
except socketio.exceptions.ConnectionError:
    outcome = 'raised ConnectionError'
print('connect()', outcome, '| connected =', c.connected, '| namespaces =', c.namespaces, '| handlers ran:', events)
ok = not c.connected and c.namespaces == {}
print('OK' if ok else 'VIOLATION: the transport is gone, the client claims to be connected')
raise SystemExit(0 if ok else 1)
